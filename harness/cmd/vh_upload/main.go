// vh_upload: correspondence harness for C07 / C08.  Runs the real
// uploader.Run of an import-rewritten copy of internal/upload ("os" -> vos,
// "net/http" -> vhttp) as 1-3 threads of the deterministic scheduler, one
// file-system / HTTP call per step, over a telemetry directory filled with
// count files written by the real counter library, and records after every
// step the contents of local/ and upload/ and the server's log.
//
// usage: vh_upload <cases file> <n> c07|c08
package main

import (
	"crypto/sha256"
	"encoding/binary"
	"encoding/json"
	"fmt"
	"os"
	"path/filepath"
	"runtime"
	"runtime/debug"
	"sort"
	"strconv"
	"strings"
	"time"

	"golang.org/x/telemetry/internal/counter"
	"golang.org/x/telemetry/internal/telemetry"
	"golang.org/x/telemetry/internal/upload"
	"golang.org/x/telemetry/internal/verifh/shim/vhttp"
	"golang.org/x/telemetry/internal/verifh/shim/vos"
	"golang.org/x/telemetry/internal/verifh/shim/vsched"
	. "golang.org/x/telemetry/internal/verifh/vhlib"
)

var rnd *Rand
var out *Out
var root string
var tag string
var dbg = os.Getenv("VH_DEBUG") != ""

const day = 24 * time.Hour

// goos / goarch: "" = the platform the harness runs on; otherwise the library-written
// file's metadata header is rewritten (same length) after the file is closed
type progT struct{ path, ver, gover, goos, goarch string }

// the replacement platform strings have the lengths of linux / amd64
const altGOOS, altGOARCH = "plan9", "arm64"

var progs = []progT{
	{path: "example.com/tools/alpha", ver: "v1.2.0", gover: "go1.22.1"},
	{path: "example.com/tools/beta", ver: "v0.3.1", gover: "go1.22.1"},
	{path: "example.com/tools/alpha", ver: "v1.3.0", gover: "go1.23.0"},
	{path: "example.com/gamma", ver: "v2.0.0", gover: "go1.23.0"},
	// a program whose count files are named local.agent@...: the prefix of local REPORTS on a count file
	{path: "example.com/tools/local.agent", ver: "v0.9.0", gover: "go1.22.1"},
}

// c4: a counter name that is not valid UTF-8 (the library takes any bytes; JSON writes U+FFFD for the stray byte)
var ctrNames = []string{"c0", "c1", "c2", "c3", "c4\xffz"}

// ctrChance: how often a counter is put into a file (the odd name in few files, so that most weeks stay plain)
func ctrChance(ci, p int) int {
	if ci == 4 {
		return 12
	}
	return p
}

// stack counters (a name with a newline; the part before it is the name the
// upload config approves): ids stackBase+i
var stackNames = []string{"s0\nmain.f\nmain.g", "s1\nmain.h"}

const stackBase = 100
const badKind = 777777 // a counter in Stacks or a stack in Counters

func ctrName(id int64) string {
	if id >= stackBase {
		return stackNames[id-stackBase]
	}
	return ctrNames[id]
}

type world struct {
	dir, local, up string
	progIDs        map[string]int
	blobOf         map[[32]byte]int
	nblobs         int
	rawOf          map[[32]byte]int
	descs          []string
	nameOf         map[string]int
	names          []string
	weekOfCount    map[string]string // count file base name -> week (end date)
}

func progKey(m map[string]string) string {
	return m["Program"] + "\x00" + m["Version"] + "\x00" + m["GoVersion"] + "\x00" + m["GOOS"] + "\x00" + m["GOARCH"]
}

func (w *world) progID(key string) int {
	if id, ok := w.progIDs[key]; ok {
		return id
	}
	id := len(w.progIDs)
	w.progIDs[key] = id
	return id
}

func ctrID(name string) int64 {
	for i, n := range ctrNames {
		if n == name || strings.ToValidUTF8(n, "\uFFFD") == name {
			return int64(i)
		}
	}
	for i, n := range stackNames {
		if n == name {
			return int64(stackBase + i)
		}
	}
	return 999999
}

func (w *world) nameID(n string) int {
	if id, ok := w.nameOf[n]; ok {
		return id
	}
	id := len(w.names)
	w.nameOf[n] = id
	w.names = append(w.names, n)
	return id
}

// emptyBlob is the reserved id of the empty byte string: an empty file is
// observed as "e" whatever created it.
const emptyBlob = 999999

func (w *world) blob(data []byte) int {
	if len(data) == 0 {
		return emptyBlob
	}
	h := sha256.Sum256(data)
	if id, ok := w.blobOf[h]; ok {
		return id
	}
	id := w.nblobs
	w.nblobs++
	w.blobOf[h] = id
	return id
}

// describe: what a file's content is, for the comparison with the model
func (w *world) describe(data []byte) string {
	h := sha256.Sum256(data)
	if id, ok := w.blobOf[h]; ok {
		return "b " + I(int64(id))
	}
	if len(data) == 0 {
		return "e"
	}
	var rep telemetry.Report
	if err := json.Unmarshal(data, &rep); err != nil || rep.Week == "" {
		return "x"
	}
	type pr struct {
		id int
		cs [][2]int64
	}
	var ps []pr
	for _, p := range rep.Programs {
		key := p.Program + "\x00" + p.Version + "\x00" + p.GoVersion + "\x00" + p.GOOS + "\x00" + p.GOARCH
		id, ok := w.progIDs[key]
		if !ok {
			id = 999999
		}
		var cs [][2]int64
		for k, v := range p.Counters {
			id := ctrID(k)
			if id >= stackBase && id != 999999 {
				id = badKind
			}
			cs = append(cs, [2]int64{id, v})
		}
		for k, v := range p.Stacks {
			id := ctrID(k)
			if id < stackBase {
				id = badKind
			}
			cs = append(cs, [2]int64{id, v})
		}
		sort.Slice(cs, func(i, j int) bool { return cs[i][0] < cs[j][0] })
		ps = append(ps, pr{id, cs})
	}
	sort.Slice(ps, func(i, j int) bool { return ps[i].id < ps[j].id })
	f := []string{"r", HS(rep.Week), HS(rep.LastWeek), I(int64(len(ps)))}
	for _, p := range ps {
		f = append(f, I(int64(p.id)), I(int64(len(p.cs))))
		for _, c := range p.cs {
			f = append(f, I(c[0]), I(c[1]))
		}
	}
	return strings.Join(f, " ")
}

func (w *world) rawID(data []byte) int {
	h := sha256.Sum256(data)
	if id, ok := w.rawOf[h]; ok {
		return id
	}
	id := len(w.descs)
	w.rawOf[h] = id
	w.descs = append(w.descs, w.describe(data))
	return id
}

type ent struct{ name, raw int }

func (w *world) listDir(d string) (bool, []ent) {
	es, err := os.ReadDir(d)
	if err != nil {
		return false, nil
	}
	var r []ent
	for _, e := range es {
		if e.Name() == "weekends" || (e.IsDir() && !strings.HasSuffix(e.Name(), ".lock")) {
			continue
		}
		var data []byte
		if !e.IsDir() { // a directory under a lock's name is observed as that (empty) lock
			var err error
			data, err = os.ReadFile(filepath.Join(d, e.Name()))
			if err != nil {
				continue
			}
		}
		r = append(r, ent{w.nameID(e.Name()), w.rawID(data)})
	}
	return true, r
}

func snapStr(ok bool, es []ent) string {
	f := []string{B(ok), I(int64(len(es)))}
	for _, e := range es {
		f = append(f, I(int64(e.name)), I(int64(e.raw)))
	}
	return strings.Join(f, " ")
}

// makeCount writes a count file with the real library.
func (w *world) makeCount(p progT, now time.Time, ctrs [][2]int64, extra ...string) string {
	counter.CounterTime = func() time.Time { return now }
	f := counter.VerifNewFile()
	f.SetBuildInfo(&debug.BuildInfo{GoVersion: p.gover, Path: p.path, Main: debug.Module{Path: p.path, Version: p.ver}})
	f.Rotate1()
	for _, c := range ctrs {
		f.NewCounter(ctrName(c[0])).Add(c[1])
	}
	for i, x := range extra {
		f.NewCounter(x).Add(int64(1 + i%7))
	}
	name := f.CurrentName()
	f.Close()
	if (p.goos != "" || p.goarch != "") && name != "" && runtime.GOOS == "linux" && runtime.GOARCH == "amd64" {
		// another platform's file: same bytes except the GOOS / GOARCH values of the metadata header
		data, err := os.ReadFile(name)
		if err != nil {
			panic(err)
		}
		newName := name
		if p.goos != "" {
			data = []byte(strings.Replace(string(data), "\nGOOS: linux\n", "\nGOOS: "+p.goos+"\n", 1))
			newName = strings.Replace(newName, "-linux-", "-"+p.goos+"-", 1)
		}
		if p.goarch != "" {
			data = []byte(strings.Replace(string(data), "\nGOARCH: amd64\n", "\nGOARCH: "+p.goarch+"\n", 1))
			newName = strings.Replace(newName, "-amd64-", "-"+p.goarch+"-", 1)
		}
		os.Remove(name)
		if err := os.WriteFile(newName, data, 0666); err != nil {
			panic(err)
		}
		name = newName
	}
	return name
}

// encodeCountFile lays out a count file as internal/counter/file.go documents the v1 format: header
// (prefix, uint32 header length, metadata), allocation limit, 512 hash heads, 32-byte aligned records
// (value, name length | 0xff000000, next, name) that do not straddle a page.  Independent of the library:
// used for files whose METADATA the library would not write (an end time spelled in another zone).
func encodeCountFile(meta string, names []string, values []uint64) []byte {
	const prefix = "# telemetry/counter file v1\n"
	const unit, nhash, page = 32, 512, 16 * 1024
	round := func(x, u int) int { return (x + u - 1) / u * u }
	hash := func(s string) uint32 {
		h := uint32(2166136261)
		for i := 0; i < len(s); i++ {
			h = (h ^ uint32(s[i])) * 16777619
		}
		return (h ^ (h >> 16)) % nhash
	}
	np := round(len(prefix), 4)
	hdrLen := round(np+4+len(meta), 32)
	buf := make([]byte, page)
	copy(buf, prefix)
	binary.LittleEndian.PutUint32(buf[np:], uint32(hdrLen))
	copy(buf[np+4:], meta)
	limit := hdrLen + 4 + 4*nhash
	for i, name := range names {
		n := round(16+len(name), unit)
		start := round(limit, unit)
		if start/page != (start+n)/page {
			start = round(limit, page)
		}
		end := start + n
		for len(buf) < round(end+unit, page) {
			buf = append(buf, make([]byte, page)...)
		}
		headOff := hdrLen + 4 + 4*int(hash(name))
		head := binary.LittleEndian.Uint32(buf[headOff:])
		binary.LittleEndian.PutUint64(buf[start:], values[i])
		binary.LittleEndian.PutUint32(buf[start+8:], uint32(len(name))|0xff000000)
		binary.LittleEndian.PutUint32(buf[start+12:], head)
		copy(buf[start+16:], name)
		binary.LittleEndian.PutUint32(buf[headOff:], uint32(start))
		limit = end
	}
	binary.LittleEndian.PutUint32(buf[hdrLen:], uint32(limit))
	return buf
}

// zoneOf: the offset (seconds east of UTC) of the clock a start time is expressed on
func zoneOf(t time.Time) int64 {
	_, off := t.Zone()
	return int64(off)
}

// chainsOK is an independent structural check of the documented v1 layout:
// every hash chain of the file stays inside the file.  Files for which it
// fails are unparseable whatever the parser under test says (the parser's own
// verdict decides for every other kind of damage).
func chainsOK(data []byte) bool {
	const prefix = "# telemetry/counter file v1\n"
	np := (len(prefix) + 3) / 4 * 4
	if len(data) < np+4 || string(data[:len(prefix)]) != prefix {
		return true
	}
	hdrLen := int(binary.LittleEndian.Uint32(data[np:]))
	if hdrLen < np+4 || hdrLen+4+4*512 > len(data) {
		return true
	}
	for i := 0; i < 512; i++ {
		off := int(binary.LittleEndian.Uint32(data[hdrLen+4+4*i:]))
		for n := 0; off != 0; n++ {
			if off+16 > len(data) || n > len(data)/32 {
				return false
			}
			nameLen := int(binary.LittleEndian.Uint32(data[off+8:]) & 0x00ffffff)
			if off+16+nameLen > len(data) {
				return false
			}
			off = int(binary.LittleEndian.Uint32(data[off+12:]))
		}
	}
	return true
}

// variant: p with exactly one of the five identity fields changed
func variant(p progT, field int) progT {
	switch field {
	case 0:
		p.path += "x"
	case 5:
		// another program with the same last path element: the count files' names differ in the date only
		p.path = strings.Replace(p.path, "example.com/", "example.com/fork/", 1)
	case 1:
		p.ver += "1"
	case 2:
		p.gover += "1"
	case 3:
		p.goos = altGOOS
	default:
		p.goarch = altGOARCH
	}
	return p
}

// span as date.go's counterDateSpan extracts it
func span(pf *counter.File) (b, e time.Time, ok bool) {
	tb, ok1 := pf.Meta["TimeBegin"]
	te, ok2 := pf.Meta["TimeEnd"]
	if !ok1 || !ok2 {
		return
	}
	b, err := time.Parse(time.RFC3339, tb)
	if err != nil {
		return
	}
	e, err = time.Parse(time.RFC3339, te)
	if err != nil {
		return
	}
	return b, e, true
}

type uspec struct {
	start time.Time
}

type scen struct {
	kind     string
	nthreads int
	policy   string // seq | rand | switch
	outcomes string // all200 | mixed
	kills    bool
	eventual bool
	directed string // "" | race3 | emptybody | lateunlock: a scripted interleaving over a forced file set
	pending2 bool   // the forced file set has 2-3 weeks (two or more reports to upload)
	oldLock  int    // c05: 1.. = the week to upload has a dead uploader's lock (age and form by this number)
	stubborn bool   // the server never accepts the OLDEST week (5xx / no answer), every other week gets 200
	// deterministic sweeps of the thorough tier
	small       bool  // the forced small file set (one week, two program builds)
	sweepKill   int   // kill thread 0 after this many calls (0 = no)
	fixedStatus int   // every request gets this status (-1 = per scenario distribution)
	sweepSegs   []int // fixed segments for the bounded-context-switch policy
}

var sweeps []scen
var faultScen int
var scenIdx int
var faultN int

// rel strips the (random) root of the temporary tree from a path or label,
// so that the case lines depend on the seed only.
func rel(s string) string { return strings.ReplaceAll(s, root+string(filepath.Separator), "") }

func buildSweeps() {
	if tag == "c05" {
		return // the fault suite has its own systematic part (faultCases): single faults and pairs
	}
	if tag == "c08" {
		for k := 1; k <= 26; k++ {
			for _, st := range []int{200, 404, 503, 0} {
				sweeps = append(sweeps, scen{kind: "killsweep", nthreads: 2, policy: "seq", outcomes: "fixed",
					small: true, sweepKill: k, fixedStatus: st})
			}
		}
		return
	}
	for i := 0; i <= 35; i++ {
		sweeps = append(sweeps, scen{kind: "switchsweep", nthreads: 2, policy: "switch", outcomes: "all200",
			small: true, fixedStatus: -1, sweepSegs: []int{i, 1 << 20}})
	}
	for i := 2; i <= 26; i += 3 {
		for j := 1; j <= 25; j += 3 {
			sweeps = append(sweeps, scen{kind: "switchsweep2", nthreads: 2, policy: "switch", outcomes: "all200",
				small: true, fixedStatus: -1, sweepSegs: []int{i, j, 1 << 20}})
		}
	}
}

func pickScen() scen {
	if len(sweeps) > 0 {
		s := sweeps[0]
		sweeps = sweeps[1:]
		return s
	}
	sc := pickScen1()
	sc.fixedStatus = -1
	return sc
}

func pickScen1() scen {
	if tag == "c05" {
		faultScen++
		if faultScen%3 == 0 {
			// systematically: one week to report and upload, and the lock of a dead uploader on it
			return scen{kind: "fault", nthreads: 1, policy: "seq", outcomes: "all200", small: true, oldLock: faultScen / 3}
		}
		return scen{kind: "fault", nthreads: 1, policy: "seq", outcomes: "all200"}
	}
	if tag == "c07" && rnd.Chance(4) {
		return scen{kind: "race3", nthreads: 3, policy: "directed", outcomes: "all200", directed: "race3"}
	}
	if tag == "c08" && rnd.Chance(7) {
		// one week the server never accepts: the other weeks must get through all the same
		return scen{kind: "stubborn", nthreads: 1 + rnd.Intn(2), policy: "seq", outcomes: "mixed", eventual: true, small: true, pending2: true, stubborn: true}
	}
	if tag == "c08" && rnd.Chance(6) {
		// a request in flight for more than a day: the lock of the run that sent it gets old
		return scen{kind: "oldlock", nthreads: 2, policy: "directed", outcomes: "all200", directed: "oldlock"}
	}
	if tag == "c08" && rnd.Chance(7) {
		// three runs, two or more weeks to upload: the END of one run against another run's request in flight
		return scen{kind: "lateunlock", nthreads: 3, policy: "directed", outcomes: "firstfail", directed: "lateunlock", pending2: true}
	}
	if tag == "c08" && rnd.Chance(4) {
		return scen{kind: "emptybody", nthreads: 2, policy: "directed", outcomes: Pick(rnd, []string{"all200", "mixed"}), directed: "emptybody"}
	}
	if tag == "c07" && rnd.Chance(6) {
		// two runs of ONE process: the first finds the count files active (and parses them for their end
		// date), the programs go on counting, the second run - after the week's end - folds them
		return scen{kind: "grow", nthreads: 2, policy: "directed", outcomes: "all200", directed: "grow"}
	}
	if tag == "c07" {
		switch rnd.Intn(10) {
		case 0, 1, 2:
			return scen{kind: "seq1", nthreads: 1, policy: "seq", outcomes: "all200"}
		case 3, 4:
			return scen{kind: "seq2", nthreads: 2, policy: "seq", outcomes: Pick(rnd, []string{"all200", "mixed"})}
		case 5, 6:
			return scen{kind: "conc2", nthreads: 2, policy: Pick(rnd, []string{"rand", "switch"}), outcomes: "all200"}
		case 7:
			return scen{kind: "conc2m", nthreads: 2, policy: "rand", outcomes: "mixed"}
		default:
			return scen{kind: "conc3", nthreads: 3, policy: Pick(rnd, []string{"rand", "rand", "switch"}), outcomes: Pick(rnd, []string{"all200", "all200", "mixed"})}
		}
	}
	switch rnd.Intn(10) {
	case 0:
		return scen{kind: "seq2", nthreads: 2, policy: "seq", outcomes: "mixed"}
	case 1, 2:
		return scen{kind: "conc2", nthreads: 2, policy: Pick(rnd, []string{"rand", "switch"}), outcomes: "mixed"}
	case 3, 4:
		return scen{kind: "kill2", nthreads: 2, policy: "rand", outcomes: "mixed", kills: true}
	case 5:
		return scen{kind: "kill3", nthreads: 3, policy: "rand", outcomes: "mixed", kills: true}
	case 6, 7:
		return scen{kind: "eventual", nthreads: 2 + rnd.Intn(2), policy: "rand", outcomes: "mixed", eventual: true}
	default:
		return scen{kind: "conc3", nthreads: 3, policy: "rand", outcomes: "mixed"}
	}
}

// classification of the call a thread is parked before
type callInfo struct {
	op, path string
	phase    int    // 0 findWork, 1 reports, 2 upload
	week     string // reports phase: the week being handled
}

func (w *world) classify(label string) callInfo {
	op, path, _ := strings.Cut(label, " ")
	ci := callInfo{op: op, path: path}
	base := filepath.Base(path)
	inLocal := filepath.Dir(path) == w.local
	switch op {
	case "ReadDir", "MkdirAll":
		ci.phase = 0
	case "ReadFile":
		if strings.HasSuffix(base, ".v1.count") {
			ci.phase = 0
		} else {
			ci.phase = 2
		}
	case "Remove":
		if strings.HasSuffix(base, ".v1.count") {
			ci.phase = 1
			ci.week = w.weekOfCount[base]
		} else {
			ci.phase = 2
		}
	case "Stat", "OpenFile", "Write":
		if inLocal && strings.HasSuffix(base, ".json") {
			ci.phase = 1
			ci.week = strings.TrimSuffix(strings.TrimPrefix(base, "local."), ".json")
		} else {
			ci.phase = 2
		}
	default: // Post, WriteFile
		ci.phase = 2
	}
	return ci
}

func outcomeTag(status int) string {
	switch {
	case status == 200:
		return "o200"
	case status >= 400 && status < 500:
		return "o4xx"
	case status == 0:
		return "onone"
	default:
		return "o5xx"
	}
}

func scenario() {
	// every scenario has its own PRNG derived from the seed and its index: the
	// order in which reports() visits the weeks is Go's map iteration order (not
	// a function of the seed), and must not shift the inputs of later scenarios
	scenIdx++
	rnd = NewRand(Seed()*1000003 + uint64(scenIdx))
	sc := pickScen()
	dir := filepath.Join(root, fmt.Sprintf("t%d", scenIdx))
	if err := os.MkdirAll(dir, 0777); err != nil {
		panic(err)
	}
	defer os.RemoveAll(dir)
	// a telemetry directory whose PATH has characters that mean something to glob patterns, regular
	// expressions, shells or URLs (the code must treat the path as a plain string)
	if rnd.Chance(10) {
		odd := Pick(rnd, []string{"proj [wip]", "a*b", "what?", "back\\slash", "[a-z]", "x{1,2}", "per%cent", "sp ace", "dollar$HOME", "hash#1", "plus+(x)", "caret^|pipe"})
		dir = filepath.Join(dir, odd)
		if err := os.MkdirAll(dir, 0777); err != nil {
			panic(err)
		}
		out.Note("dir-path-odd-characters")
	}
	// a telemetry directory whose PATH contains a date (notNeeded searches the path)
	datedDir := tag == "c07" && sc.directed == "" && !sc.small && rnd.Chance(3)
	var datedBase time.Time
	if datedDir {
		datedBase = time.Date(2024, 1, 1, 0, 0, 0, 0, time.UTC).Add(time.Duration(rnd.Intn(300)) * day)
		// the first Sunday..Saturday after datedBase are candidate week ends: put them all in the path
		name := "bk"
		for k := 1; k <= 7; k++ {
			name += "_" + datedBase.Add(time.Duration(k)*day).Format("2006-01-02")
		}
		dir = filepath.Join(dir, name)
		os.MkdirAll(dir, 0777)
		out.Note("dir-path-contains-dates")
	}
	td := telemetry.NewDir(dir)
	telemetry.Default = td
	w := &world{dir: dir, local: td.LocalDir(), up: td.UploadDir(), progIDs: map[string]int{}, blobOf: map[[32]byte]int{},
		rawOf: map[[32]byte]int{}, nameOf: map[string]int{}, weekOfCount: map[string]string{}}
	os.MkdirAll(w.local, 0777)
	weekend := rnd.Intn(7)
	os.WriteFile(filepath.Join(w.local, "weekends"), []byte(fmt.Sprintf("%d\n", weekend)), 0666)

	modeOn := rnd.Chance(70) || datedDir
	if tag == "c08" {
		modeOn = rnd.Chance(95)
	}
	if tag == "c05" {
		// the exported upload.Run is exercised in mode local only (no config download there)
		modeOn = rnd.Chance(55) || datedDir
	}
	forced := sc.directed != "" || sc.small
	if forced {
		modeOn = true
	}

	// ---- count files written by the real library ----
	base := time.Date(2024, 1, 1, 0, 0, 0, 0, time.UTC).Add(time.Duration(rnd.Intn(300)) * day)
	if datedDir {
		base = datedBase
	}
	nWeeks := 1 + rnd.Intn(3)
	nProgs := 1 + rnd.Intn(3)
	if (sc.nthreads >= 2 && rnd.Chance(50)) || datedDir {
		nWeeks, nProgs = 1, 1+rnd.Intn(2)
	}
	if forced {
		nWeeks, nProgs = 1, 2
	}
	if sc.pending2 {
		nWeeks = 2 + rnd.Intn(2)
	}
	forcedNow := base.Add(time.Duration(rnd.Intn(7))*day + 10*time.Hour)
	pstart := rnd.Intn(len(progs))
	used := map[string]bool{}
	var goVersions, progNames []string
	var platforms [][2]string
	for wk := 0; wk < nWeeks; wk++ {
		for pi := 0; pi < nProgs; pi++ {
			if !forced && !rnd.Chance(80) {
				continue
			}
			p := progs[(pstart+pi)%len(progs)]
			ndays := 1
			if !forced && rnd.Chance(25) {
				ndays = 2 // the same program started on two days of the week: same end, different begin
			}
			for k := 0; k < ndays; k++ {
				now := base.Add(time.Duration(wk*7+rnd.Intn(7))*day + time.Duration(rnd.Intn(86400))*time.Second)
				if forced {
					now = forcedNow.Add(time.Duration(wk*7) * day)
				}
				key := p.path + p.ver + now.Format("2006-01-02")
				if used[key] {
					continue
				}
				used[key] = true
				used["file:"+filepath.Base(p.path)+p.ver+p.gover+p.goos+p.goarch+now.Format("2006-01-02")] = true
				var ctrs [][2]int64
				if forced {
					ctrs = [][2]int64{{int64(pi), int64(1 + rnd.Intn(5))}, {3, int64(1 + rnd.Intn(5))}}
				} else if !rnd.Chance(15) { // else: a file without counters
					for ci := range ctrNames {
						if rnd.Chance(ctrChance(ci, 55)) {
							ctrs = append(ctrs, [2]int64{int64(ci), int64(1 + rnd.Intn(5))})
						}
					}
				}
				w.makeCount(p, now, ctrs)
			}
		}
	}
	// identity groups (C07): in one week, 2-4 files whose program identities differ in
	// exactly one of the five fields from a base identity, or are equal to it (to be
	// summed); distinct values, counters and stack counters
	if !forced && tag == "c07" && rnd.Chance(55) {
		out.Note("ident-group")
		bp := progs[rnd.Intn(len(progs))]
		now0 := base.Add(time.Duration(rnd.Intn(nWeeks*7))*day + time.Duration(rnd.Intn(86400))*time.Second)
		counter.CounterTime = func() time.Time { return now0 }
		probe := counter.VerifNewFile()
		probe.SetBuildInfo(&debug.BuildInfo{GoVersion: "go0.0.0", Path: "example.com/probe", Main: debug.Module{Path: "example.com/probe", Version: "v0.0.0"}})
		probe.Rotate1()
		_, end0 := probe.Span()
		pn := probe.CurrentName()
		probe.Close()
		os.Remove(pn)
		nf := 2 + rnd.Intn(3)
		for j := 0; j < nf; j++ {
			p := bp
			if j > 0 && !rnd.Chance(30) {
				fld := rnd.Intn(6)
				p = variant(bp, fld)
				out.Note("ident-differs-" + []string{"Program", "Version", "GoVersion", "GOOS", "GOARCH", "Program-same-base"}[fld])
			} else if j > 0 {
				out.Note("ident-same")
			}
			// a begin date in the seven days before the common end: same report week
			now := end0.Add(-time.Duration(1+rnd.Intn(7))*day + time.Duration(rnd.Intn(80000))*time.Second)
			// the file name holds path.Base(program), version, toolchain, platform and the begin date
			key := "file:" + filepath.Base(p.path) + p.ver + p.gover + p.goos + p.goarch + now.Format("2006-01-02")
			if used[key] || used[p.path+p.ver+now.Format("2006-01-02")] {
				continue
			}
			used[key] = true
			used[p.path+p.ver+now.Format("2006-01-02")] = true
			var ctrs [][2]int64
			for ci := range ctrNames {
				if rnd.Chance(ctrChance(ci, 60)) {
					ctrs = append(ctrs, [2]int64{int64(ci), int64(10*(j+1) + rnd.Intn(5))})
				}
			}
			for si := range stackNames {
				if rnd.Chance(50) {
					ctrs = append(ctrs, [2]int64{int64(stackBase + si), int64(100*(j+1) + rnd.Intn(5))})
				}
			}
			if len(ctrs) == 0 {
				ctrs = [][2]int64{{0, int64(10*(j+1) + 7)}}
			}
			w.makeCount(p, now, ctrs)
		}
	}

	// scenario grow: the files as the FIRST run will see them (v1) are kept aside; then the programs
	// count on (same files, larger values, a new counter): that final state is what the case describes
	growV1 := map[string][]byte{}
	if sc.directed == "grow" {
		es, _ := os.ReadDir(w.local)
		for _, e := range es {
			if strings.HasSuffix(e.Name(), ".v1.count") {
				growV1[e.Name()], _ = os.ReadFile(filepath.Join(w.local, e.Name()))
			}
		}
		for pi := 0; pi < nProgs; pi++ {
			p := progs[(pstart+pi)%len(progs)]
			w.makeCount(p, forcedNow, [][2]int64{{int64(pi), int64(20 + rnd.Intn(9))}, {3, int64(30 + rnd.Intn(9))}, {int64((pi + 1) % 3), int64(40 + rnd.Intn(9))}})
		}
		out.Note("grow-files")
	}

	// a count file whose TimeEnd is the same INSTANT as a library-written file's, spelled on a clock
	// east of UTC (same date): it belongs to the same week, and with the same identity to the same entry
	if !forced && tag == "c07" && rnd.Chance(25) {
		es, _ := os.ReadDir(w.local)
		var donors []string
		for _, e := range es {
			if strings.HasSuffix(e.Name(), ".v1.count") && !strings.HasPrefix(e.Name(), "bad") {
				donors = append(donors, e.Name())
			}
		}
		if len(donors) > 0 {
			dn := Pick(rnd, donors)
			data, _ := os.ReadFile(filepath.Join(w.local, dn))
			if pf, err := counter.Parse(dn, data); err == nil && chainsOK(data) {
				if b, en, ok := span(pf); ok && en.UTC().Hour() == 0 {
					loc := time.FixedZone("", Pick(rnd, []int{3600, 2 * 3600, 5*3600 + 1800, 9 * 3600, 12 * 3600}))
					nb := b.Add(-24 * time.Hour)
					m := pf.Meta
					prog := m["Program"]
					if rnd.Chance(40) {
						prog += "z" // another program of the same week
					}
					meta := fmt.Sprintf("TimeBegin: %s\nTimeEnd: %s\nProgram: %s\nVersion: %s\nGoVersion: %s\nGOOS: %s\nGOARCH: %s\n\n",
						nb.UTC().Format(time.RFC3339), en.In(loc).Format(time.RFC3339), prog, m["Version"], m["GoVersion"], m["GOOS"], m["GOARCH"])
					ver := m["Version"]
					if ver != "" {
						ver = "@" + ver
					}
					name := fmt.Sprintf("%s%s-%s-%s-%s-%s.v1.count", filepath.Base(prog), ver, m["GoVersion"], m["GOOS"], m["GOARCH"], nb.UTC().Format("2006-01-02"))
					if _, err := os.Stat(filepath.Join(w.local, name)); err != nil {
						var names []string
						var vals []uint64
						for ci := 0; ci < 4; ci++ {
							if rnd.Chance(70) {
								names = append(names, ctrNames[ci])
								vals = append(vals, uint64(50+rnd.Intn(9)))
							}
						}
						if len(names) == 0 {
							names, vals = []string{ctrNames[0]}, []uint64{57}
						}
						os.WriteFile(filepath.Join(w.local, name), encodeCountFile(meta, names, vals), 0666)
						out.Note("end-spelled-in-zone")
					}
				}
			}
		}
	}

	// a count file whose directory entry is a symbolic link (data relocated to another volume):
	// it is read, folded and removed like any other
	if !forced && (tag == "c07" || tag == "c05") && rnd.Chance(18) {
		es, _ := os.ReadDir(w.local)
		var cands []string
		for _, e := range es {
			if strings.HasSuffix(e.Name(), ".v1.count") && e.Type().IsRegular() {
				cands = append(cands, e.Name())
			}
		}
		if len(cands) > 0 {
			name := Pick(rnd, cands)
			vol := filepath.Join(dir, "vol2")
			os.MkdirAll(vol, 0777)
			if os.Rename(filepath.Join(w.local, name), filepath.Join(vol, name)) == nil {
				if os.Symlink(filepath.Join(vol, name), filepath.Join(w.local, name)) == nil {
					out.Note("count-file-is-symlink")
				}
			}
		}
	}

	// count files with a valid header and metadata whose hash chains leave the file: a file that
	// grew beyond its first page and was truncated, or a record whose link points past the end.
	// Expired like the others: only the parser's refusal keeps the uploader away from them.
	damChance := 22
	if tag == "c08" {
		damChance = 6
	}
	if !forced && rnd.Chance(damChance) {
		p := progs[rnd.Intn(len(progs))]
		now := base.Add(time.Duration(rnd.Intn(nWeeks*7))*day + time.Duration(rnd.Intn(86400))*time.Second)
		key := p.path + p.ver + now.Format("2006-01-02")
		fkey := "file:" + filepath.Base(p.path) + p.ver + p.gover + p.goos + p.goarch + now.Format("2006-01-02")
		if !used[key] && !used[fkey] {
			used[key], used[fkey] = true, true
			ctrs := [][2]int64{{0, int64(3 + rnd.Intn(5))}, {1, int64(3 + rnd.Intn(5))}, {2, int64(3 + rnd.Intn(5))}, {3, int64(3 + rnd.Intn(5))},
				{stackBase, int64(40 + rnd.Intn(5))}}
			if rnd.Chance(50) {
				var extra []string
				for i := 0; i < 260; i++ {
					extra = append(extra, fmt.Sprintf("filler/%03d/%s", i, strings.Repeat("x", 40)))
				}
				name := w.makeCount(p, now, ctrs, extra...)
				if fi, err := os.Stat(name); err == nil && fi.Size() > 16*1024 {
					os.Truncate(name, 16*1024)
					out.Note("damaged-truncated-after-growth")
				}
			} else {
				name := w.makeCount(p, now, ctrs)
				if data, err := os.ReadFile(name); err == nil && chainsOK(data) {
					np := (len("# telemetry/counter file v1\n") + 3) / 4 * 4
					hdrLen := int(binary.LittleEndian.Uint32(data[np:]))
					last := -1
					for i := 0; i < 512; i++ {
						if binary.LittleEndian.Uint32(data[hdrLen+4+4*i:]) != 0 {
							last = i
						}
					}
					if last >= 0 {
						off := int(binary.LittleEndian.Uint32(data[hdrLen+4+4*last:]))
						for {
							next := int(binary.LittleEndian.Uint32(data[off+12:]))
							if next == 0 {
								break
							}
							off = next
						}
						// the last record of the last chain links to a record past the end
						binary.LittleEndian.PutUint32(data[off+12:], uint32(len(data)+64))
						os.WriteFile(name, data, 0666)
						out.Note("damaged-dangling-link")
					}
				}
			}
		}
	}

	// malformed count files
	if !forced && rnd.Chance(30) {
		var donor []byte
		es, _ := os.ReadDir(w.local)
		for _, e := range es {
			if strings.HasSuffix(e.Name(), ".v1.count") {
				donor, _ = os.ReadFile(filepath.Join(w.local, e.Name()))
				break
			}
		}
		nb := 1 + rnd.Intn(2)
		for i := 0; i < nb; i++ {
			var data []byte
			switch rnd.Intn(4) {
			case 0:
				data = nil
			case 1:
				if len(donor) > 40 {
					data = donor[:20+rnd.Intn(60)]
				}
			case 2:
				data = rnd.Bytes(10 + rnd.Intn(100))
			default:
				if len(donor) > 0 {
					data = append([]byte(nil), donor...)
					data[rnd.Intn(16)] ^= 0x5a // header damage
				}
			}
			os.WriteFile(filepath.Join(w.local, fmt.Sprintf("bad%d-%d.v1.count", i, rnd.Intn(1000))), data, 0666)
			out.Note("malformed-count-file")
		}
	}

	// ---- read back what the real parser makes of every count file ----
	type fileSpec struct {
		name, kind string
		blob       int
		parsed     bool
		begin, end int64
		prog       int
		counts     [][2]int64
	}
	var files []fileSpec
	var ends []time.Time
	weeks := map[string]bool{}
	es, _ := os.ReadDir(w.local)
	for _, e := range es {
		if !strings.HasSuffix(e.Name(), ".v1.count") {
			continue
		}
		data, _ := os.ReadFile(filepath.Join(w.local, e.Name()))
		fs := fileSpec{name: e.Name(), kind: "cnt", blob: w.blob(data)}
		pf, err := counter.Parse(e.Name(), data)
		if err == nil && chainsOK(data) {
			if b, en, ok := span(pf); ok {
				fs.parsed = true
				fs.begin, fs.end = b.Unix(), en.Unix()
				fs.prog = w.progID(progKey(pf.Meta))
				for k, v := range pf.Count {
					fs.counts = append(fs.counts, [2]int64{ctrID(k), int64(v)})
				}
				sort.Slice(fs.counts, func(i, j int) bool { return fs.counts[i][0] < fs.counts[j][0] })
				ends = append(ends, en)
				wk := en.UTC().Format("2006-01-02")
				weeks[wk] = true
				w.weekOfCount[e.Name()] = wk
				goVersions = append(goVersions, pf.Meta["GoVersion"])
				platforms = append(platforms, [2]string{pf.Meta["GOOS"], pf.Meta["GOARCH"]})
				progNames = append(progNames, pf.Meta["Program"]+"\x00"+pf.Meta["Version"])
			}
		}
		files = append(files, fs)
	}
	var weekList []string
	for wk := range weeks {
		weekList = append(weekList, wk)
	}
	sort.Strings(weekList)
	if len(weekList) == 0 {
		weekList = []string{base.Format("2006-01-02")}
		ends = []time.Time{base}
	}

	// ---- other pre-existing files ----
	addRaw := func(d, name string, data []byte) {
		os.MkdirAll(d, 0777)
		os.WriteFile(filepath.Join(d, name), data, 0666)
		w.blob(data)
	}
	rawBody := func(s string) []byte {
		return []byte(fmt.Sprintf("{\"Week\":\"%s\",\"note\":\"pre-existing %d\"}", s, rnd.Intn(1000000)))
	}
	upPresent := rnd.Chance(60) || forced
	if upPresent {
		os.MkdirAll(w.up, 0777)
	}
	pre := 12
	if sc.nthreads >= 2 {
		pre = 8
	}
	if forced {
		pre = -100
	}
	wkR := func() string { return Pick(rnd, weekList) }
	if rnd.Chance(pre) {
		addRaw(w.local, "local."+wkR()+".json", rawBody("l"))
		out.Note("pre-local-report")
	}
	if rnd.Chance(pre + 6) {
		addRaw(w.local, wkR()+".json", rawBody("r"))
		out.Note("pre-ready-report")
	}
	if rnd.Chance(pre) {
		addRaw(w.up, wkR()+".json", rawBody("m"))
		upPresent = true
		out.Note("pre-marker")
	}
	if rnd.Chance(pre) {
		addRaw(w.up, base.Add(-30*day).Format("2006-01-02")+".json", rawBody("old"))
		upPresent = true
		out.Note("pre-older-marker")
	}
	if sc.eventual && rnd.Chance(40) {
		// a ready report of long ago that was never delivered: the code uploads it whatever its age
		addRaw(w.local, base.Add(-time.Duration(30+rnd.Intn(40))*day).Format("2006-01-02")+".json", rawBody("a"))
		out.Note("pre-ancient-ready")
	}
	if datedDir {
		addRaw(w.local, base.Add(-14*day).Format("2006-01-02")+".json", rawBody("o"))
	}
	if rnd.Chance(6) {
		addRaw(w.local, "keep-"+wkR()+".json", rawBody("s"))
		out.Note("pre-stray-ready")
	}
	staleLock := ""
	lockChance := 5
	if tag == "c05" {
		lockChance = 20
	}
	if tag == "c08" {
		lockChance = 14
	}
	if rnd.Chance(lockChance) && !sc.eventual && !forced {
		staleLock = wkR()
		os.MkdirAll(w.up, 0777)
		os.WriteFile(filepath.Join(w.up, staleLock+".json.lock"), nil, 0666)
		upPresent = true
		out.Note("pre-stale-lock")
		if rnd.Chance(65) {
			// file ages are part of the state: the dead uploader's lock is hours or days old
			old := time.Now().Add(-time.Duration(2+rnd.Intn(70)) * time.Hour)
			os.Chtimes(filepath.Join(w.up, staleLock+".json.lock"), old, old)
			out.Note("pre-old-lock")
		}
	}
	if sc.oldLock > 0 {
		// the lock of a dead uploader on the week this run will try to upload: 30 min (young), 90 min,
		// 2 h, 25 h or 3 days old; an empty file, or (every other time) a directory with content under
		// the lock's name, which no Remove can take away
		staleLock = weekList[0]
		lp := filepath.Join(w.up, staleLock+".json.lock")
		os.MkdirAll(w.up, 0777)
		age := []time.Duration{30 * time.Minute, 90 * time.Minute, 2 * time.Hour, 25 * time.Hour, 72 * time.Hour}[sc.oldLock%5]
		if (sc.oldLock/5)%2 == 1 {
			os.MkdirAll(lp, 0777)
			os.WriteFile(filepath.Join(lp, "keep"), []byte("x"), 0666)
			out.Note("pre-lock-is-directory")
		} else {
			os.WriteFile(lp, nil, 0666)
		}
		old := time.Now().Add(-age)
		os.Chtimes(lp, old, old)
		upPresent = true
		out.Note("pre-stale-lock")
		out.Note(fmt.Sprintf("pre-old-lock-%s", age))
	}
	if !forced && rnd.Chance(4) {
		addRaw(w.local, "2099-01-01.json", rawBody("f"))
		out.Note("pre-future-ready")
	}
	if !forced && rnd.Chance(2) {
		addRaw(w.local, "x.json", rawBody("x"))
		out.Note("pre-short-name")
	}

	// ---- mode, start times ----
	sort.Slice(ends, func(i, j int) bool { return ends[i].Before(ends[j]) })
	lastEnd := ends[len(ends)-1]
	asofStr := ""
	var asof time.Time
	if !forced && rnd.Chance(60) {
		asof = base.Add(-time.Duration(10+rnd.Intn(20)) * day)
		if rnd.Chance(12) {
			asof = base.Add(time.Duration(rnd.Intn(10)) * day) // on/after some begin: those weeks are not uploadable
			out.Note("asof-late")
		}
	}
	mode := "local"
	if modeOn {
		mode = "on"
	}
	if asof.IsZero() && !modeOn && tag == "c05" && rnd.Chance(25) {
		// a blank mode file (empty, or white space only) means: not on, not off
		os.WriteFile(td.ModeFile(), []byte(Pick(rnd, []string{"", "\n", "  \n", "\t"})), 0666)
		out.Note("mode-file-blank")
	} else if asof.IsZero() {
		content := mode
		if tag == "c05" && rnd.Chance(30) {
			content = mode + "\n" // as an editor leaves it
		}
		os.WriteFile(td.ModeFile(), []byte(content), 0666)
	} else {
		asofStr = asof.Format("2006-01-02")
		os.WriteFile(td.ModeFile(), []byte(mode+" "+asofStr), 0666)
		asof, _ = time.Parse("2006-01-02", asofStr)
	}
	out.Note("mode-" + mode)
	genStart := func() time.Time {
		switch rnd.Intn(12) {
		case 0:
			return Pick(rnd, ends)
		case 1:
			return Pick(rnd, ends).Add(time.Nanosecond)
		case 2:
			return Pick(rnd, ends).Add(-time.Second)
		case 3:
			return Pick(rnd, ends).Add(time.Second)
		case 4:
			return lastEnd.Add(time.Duration(22+rnd.Intn(10)) * day) // some weeks too old to upload
		default:
			return lastEnd.Add(time.Duration(1+rnd.Intn(5))*day + time.Duration(rnd.Intn(86400))*time.Second)
		}
	}
	nth := sc.nthreads
	if sc.eventual {
		nth++ // the last thread is the further complete run
	}
	starts := make([]time.Time, nth)
	starts[0] = genStart()
	if forced {
		starts[0] = lastEnd.Add(time.Duration(1+rnd.Intn(5)) * day)
	}
	for i := 1; i < nth; i++ {
		if forced || rnd.Chance(70) {
			starts[i] = starts[0]
		} else {
			starts[i] = genStart()
		}
		if sc.policy == "seq" && starts[i].Before(starts[i-1]) {
			starts[i] = starts[i-1].Add(time.Duration(rnd.Intn(3)) * day)
		}
	}
	if sc.directed == "grow" {
		starts[0] = ends[0].Add(-time.Duration(1+rnd.Intn(3600)) * time.Second) // the week is not over yet
		starts[1] = lastEnd.Add(time.Duration(1+rnd.Intn(5)) * day)
	}
	if sc.eventual {
		starts[nth-1] = lastEnd.Add(time.Duration(1+rnd.Intn(5)) * day)
		for i := 0; i < nth-1; i++ {
			if starts[i].After(starts[nth-1]) {
				starts[nth-1] = starts[i]
			}
		}
	}

	// the same instants on other clocks: a start time given in a zone west or east of UTC (as
	// time.Now() is on most machines); only "today" may be read off that clock, never a file's week
	if rnd.Chance(35) {
		for i := range starts {
			if i == 0 || rnd.Chance(40) {
				off := Pick(rnd, []int{-8 * 3600, -5 * 3600, -3600, 3600, 5*3600 + 1800, 9 * 3600, 13 * 3600, -11 * 3600})
				starts[i] = starts[i].In(time.FixedZone("Z", off))
			} else {
				starts[i] = starts[i].In(starts[0].Location())
			}
		}
		out.Note("start-not-utc")
	}

	// ---- upload config: every program build approved, a subset of the counters ----
	var allowed []int64
	cfg := &telemetry.UploadConfig{GOOS: []string{runtime.GOOS}, GOARCH: []string{runtime.GOARCH}, SampleRate: 0}
	seenGV := map[string]bool{}
	for _, g := range goVersions {
		if !seenGV[g] {
			seenGV[g] = true
			cfg.GoVersion = append(cfg.GoVersion, g)
		}
	}
	for _, pl := range platforms {
		hasOS, hasArch := false, false
		for _, g := range cfg.GOOS {
			hasOS = hasOS || g == pl[0]
		}
		for _, g := range cfg.GOARCH {
			hasArch = hasArch || g == pl[1]
		}
		if !hasOS {
			cfg.GOOS = append(cfg.GOOS, pl[0])
		}
		if !hasArch {
			cfg.GOARCH = append(cfg.GOARCH, pl[1])
		}
	}
	for ci := range ctrNames {
		if rnd.Chance(70) {
			allowed = append(allowed, int64(ci))
		}
	}
	if tag == "c07" {
		for si := range stackNames {
			if rnd.Chance(70) {
				allowed = append(allowed, int64(stackBase+si))
			}
		}
	}
	pcs := map[string]*telemetry.ProgramConfig{}
	for _, pv := range progNames {
		name, ver, _ := strings.Cut(pv, "\x00")
		pc := pcs[name]
		if pc == nil {
			pc = &telemetry.ProgramConfig{Name: name}
			for _, a := range allowed {
				if a >= stackBase {
					before, _, _ := strings.Cut(stackNames[a-stackBase], "\n")
					pc.Stacks = append(pc.Stacks, telemetry.CounterConfig{Name: before, Rate: 1, Depth: 8})
				} else {
					pc.Counters = append(pc.Counters, telemetry.CounterConfig{Name: ctrNames[a], Rate: 1})
				}
			}
			pcs[name] = pc
			cfg.Programs = append(cfg.Programs, pc)
		}
		has := false
		for _, v := range pc.Versions {
			has = has || v == ver
		}
		if !has {
			pc.Versions = append(pc.Versions, ver)
		}
	}

	// ---- initial snapshot ----
	var init0 []string
	es, _ = os.ReadDir(w.local)
	nlocal0 := 0
	for _, e := range es {
		if e.Name() == "weekends" || e.IsDir() {
			continue
		}
		nlocal0++
		if strings.HasSuffix(e.Name(), ".v1.count") {
			for _, fs := range files {
				if fs.name != e.Name() {
					continue
				}
				f := []string{HS(fs.name), "cnt", I(int64(fs.blob)), B(fs.parsed)}
				if fs.parsed {
					f = append(f, I(fs.begin), I(fs.end), I(int64(fs.prog)), I(int64(len(fs.counts))))
					for _, c := range fs.counts {
						f = append(f, I(c[0]), I(c[1]))
					}
				}
				init0 = append(init0, strings.Join(f, " "))
			}
		} else {
			data, _ := os.ReadFile(filepath.Join(w.local, e.Name()))
			init0 = append(init0, HS(e.Name())+" raw "+I(int64(w.blob(data))))
		}
	}
	var initUp []string
	if upPresent {
		es, _ = os.ReadDir(w.up)
		for _, e := range es {
			data, _ := os.ReadFile(filepath.Join(w.up, e.Name()))
			if len(data) == 0 {
				initUp = append(initUp, HS(e.Name())+" lock")
			} else {
				initUp = append(initUp, HS(e.Name())+" raw "+I(int64(w.blob(data))))
			}
		}
	}
	if tag == "c05" {
		head := []string{HS(rel(w.local + string(filepath.Separator))), I(int64(len(allowed)))}
		for _, a := range allowed {
			head = append(head, I(a))
		}
		head = append(head, I(int64(len(init0))))
		head = append(head, init0...)
		head = append(head, B(upPresent), I(int64(len(initUp))))
		head = append(head, initUp...)
		head = append(head, I(starts[0].Unix()), I(int64(starts[0].Nanosecond())), B(modeOn), B(!asof.IsZero()), I(asof.Unix()), I(zoneOf(starts[0])))
		faultCases(faultN, w, dir, cfg, starts[0], modeOn, asof, head)
		return
	}
	// scenario grow: back to what the first run sees; both versions of a file are "that count file"
	growV2 := map[string][]byte{}
	for name, v1 := range growV1 {
		v2, _ := os.ReadFile(filepath.Join(w.local, name))
		growV2[name] = v2
		if id, ok := w.blobOf[sha256.Sum256(v2)]; ok {
			w.blobOf[sha256.Sum256(v1)] = id
		}
		os.WriteFile(filepath.Join(w.local, name), v1, 0666)
	}
	// ---- threads ----
	url := "http://verif.invalid/upload"
	s := vsched.New(false)
	defer vsched.Stop()
	var nextStatus int
	vhttp.Reset(func(u string, body []byte) int { return nextStatus })
	vos.ResetTemp()
	tids := make([]int, nth)
	for i := 0; i < nth; i++ {
		u := upload.VerifNewUploader(dir, url, starts[i], cfg, "v9.9.9", nil)
		tids[i] = s.Go(func() { u.RunAndClose() })
	}
	phase := make([]int, nth)      // tracked phase per thread
	curWeek := make([]string, nth) // tracked week per thread (reports phase)
	curFile := make([]string, nth) // ready file being uploaded
	calls := make([]int, nth)
	postsBy := make([]int, nth)
	killed := make([]bool, nth)
	killAt := make([]int, nth)
	for i := range killAt {
		killAt[i] = -1
	}
	if sc.sweepKill > 0 {
		killAt[0] = sc.sweepKill
	}
	if sc.kills {
		nk := 1 + rnd.Intn(2)
		for k := 0; k < nk; k++ {
			killAt[rnd.Intn(sc.nthreads)] = 1 + rnd.Intn(30)
		}
	}
	var steps []string
	nsteps := 0
	panics := 0
	quietAt := 0
	finish := func(status string) {
		out.Case(true, caseFields(w, sc, status, quietAt, staleLock, allowed, init0, initUp, upPresent, nth, starts, modeOn, asof, nsteps, steps)...)
	}
	// a thread that neither yields nor returns would stop the harness: report the scenario as a hang
	stopWatch := watchdog(func() { finish("hang") })
	emit := func(tid int, act string, label string, post string, done, pan bool) {
		okl, loc := w.listDir(w.local)
		oku, upl := w.listDir(w.up)
		_ = okl
		steps = append(steps, I(int64(tid)), act, HS(rel(label)), post, B(done), B(pan), snapStr(true, loc), snapStr(oku, upl))
		nsteps++
	}
	// pseudo-steps (map iteration of reports()) before the call the thread is parked before
	prelude := func(i int) {
		if s.Done(tids[i]) {
			return
		}
		ci := w.classify(s.Last(tids[i]).Label)
		if ci.phase == 1 && (phase[i] == 0 || curWeek[i] != ci.week) {
			phase[i], curWeek[i] = 1, ci.week
			emit(i, "pick "+HS(ci.week), "", "i0", false, false)
		}
		if ci.phase == 2 && phase[i] < 2 {
			phase[i] = 2
			emit(i, "pnone", "", "i0", false, false)
		}
	}
	alive := func(i int) bool { return !s.Done(tids[i]) && !killed[i] }
	var stepThread func(i int)
	stepThread = func(i int) {
		if s.Last(tids[i]).Blocked {
			// parked before a mutex another thread held: re-test; no os call is made, nothing to emit
			if info := s.Step(tids[i]); info.Blocked {
				for j := range tids {
					if j != i && alive(j) && !s.Last(tids[j]).Blocked {
						stepThread(j) // let a thread that can move (the holder is one) go on
						return
					}
				}
			}
			return
		}
		prelude(i)
		info0 := s.Last(tids[i])
		ci := w.classify(info0.Label)
		post := "i0"
		if ci.op == "ReadFile" && ci.phase == 2 {
			curFile[i] = filepath.Base(ci.path)
		}
		act := "step o200"
		if ci.op == "Post" {
			switch sc.outcomes {
			case "all200":
				nextStatus = 200
			case "firstfail":
				// the first request of the scenario fails (server error or no answer), all later ones succeed
				nextStatus = 200
				if len(vhttp.Log) == 0 {
					nextStatus = Pick(rnd, []int{500, 503, 0})
				}
			default:
				// every class, and within the client errors also the "come back later" ones
				nextStatus = Pick(rnd, []int{200, 200, 200, 200, 200, 400, 401, 403, 404, 408, 410, 413, 425, 429, 431, 451, 500, 502, 503, 504, 301, 0, 0})
			}
			if sc.eventual && i == nth-1 {
				nextStatus = 200
			}
			if sc.fixedStatus >= 0 {
				nextStatus = sc.fixedStatus
			}
			if sc.stubborn {
				nextStatus = 200
				if strings.HasSuffix(ci.path, "/"+weekList[0]) {
					nextStatus = Pick(rnd, []int{500, 503, 0})
				}
			}
			act = "step " + outcomeTag(nextStatus)
			out.Note("post-" + outcomeTag(nextStatus))
			if nextStatus != 0 && tag == "c08" && rnd.Chance(25) {
				// the status line arrives, the body of the answer does not: the status decides all the same
				nextStatus += vhttp.BodyCut
				out.Note("post-answer-body-cut")
			}
			if nextStatus != 0 && nextStatus < vhttp.BodyCut && tag == "c08" && rnd.Chance(20) {
				// the server takes half a minute over its answer: it has processed the request all the same
				nextStatus += vhttp.Slow
				out.Note("post-answer-slow")
			}
		}
		nlog := len(vhttp.Log)
		info := s.Step(tids[i])
		if len(vhttp.Log) > nlog && len(vhttp.Log[len(vhttp.Log)-1].Body) == 0 {
			out.Note("observation-empty-body-posted")
		}
		calls[i]++
		if ci.op == "Post" {
			postsBy[i]++
		}
		if len(vhttp.Log) > nlog {
			r := vhttp.Log[len(vhttp.Log)-1]
			wk := strings.TrimPrefix(r.URL, url+"/")
			post = strings.Join([]string{"i1", HS(wk), I(int64(w.rawID(r.Body))), I(int64(w.nameID(curFile[i])))}, " ")
		}
		if info.Panic != "" {
			panics++
			if dbg {
				fmt.Fprintln(os.Stderr, info.Panic)
			}
		}
		emit(i, act, info0.Label, post, info.Done, info.Panic != "")
		if dbg {
			fmt.Fprintf(os.Stderr, "  t%d %s -> next %q done=%v\n", i, info0.Label, info.Label, info.Done)
		}
		if info.Done && phase[i] < 2 {
			phase[i] = 2
			emit(i, "pnone", "", "i0", true, false)
		}
		if killAt[i] == calls[i] && alive(i) {
			s.Kill(tids[i])
			killed[i] = true
			emit(i, "kill", "", "i0", false, false)
			out.Note("kill-before-" + w.classify(info.Label).op)
		}
	}
	budget := 4000
	runUntilQuiet := func(ths []int, policy string) {
		last := -1
		var segs []int
		if policy == "switch" {
			if sc.sweepSegs != nil {
				segs = append(segs, sc.sweepSegs...)
			} else {
				for k := 0; k < 2+rnd.Intn(3); k++ {
					segs = append(segs, rnd.Intn(25))
				}
			}
		}
		segThread := 0
		for budget > 0 {
			var cand []int
			for _, i := range ths {
				if alive(i) {
					cand = append(cand, i)
				}
			}
			if len(cand) == 0 {
				return
			}
			budget--
			var i int
			switch policy {
			case "seq":
				i = cand[0]
			case "switch":
				// a few bounded segments, then each thread to completion
				for len(segs) > 0 && segs[0] <= 0 {
					segs = segs[1:]
					segThread++
				}
				if len(segs) > 0 {
					i = cand[segThread%len(cand)]
					segs[0]--
					if segs[0] <= 0 {
						segs = segs[1:]
						segThread++
					}
				} else {
					i = cand[0]
				}
			default:
				i = cand[rnd.Intn(len(cand))]
				if last >= 0 && alive(last) && rnd.Chance(60) {
					i = last
				}
			}
			last = i
			stepThread(i)
		}
	}
	main := make([]int, sc.nthreads)
	for i := range main {
		main[i] = i
	}
	// scripted interleavings: run thread tid until it is parked before a call satisfying until
	type dstep struct {
		tid   int
		until func(ci callInfo, calls int) bool
		do    func() // tid < 0: something the world does between steps
	}
	runDirected := func(ds []dstep) {
		for _, d := range ds {
			if d.tid < 0 {
				d.do()
				continue
			}
			for budget > 0 && alive(d.tid) && !d.until(w.classify(s.Last(tids[d.tid]).Label), calls[d.tid]) {
				budget--
				stepThread(d.tid)
			}
		}
	}
	never := func(callInfo, int) bool { return false }
	switch sc.directed {
	case "race3":
		// C=0 creates W.json and pauses before creating local.W.json; E=1 sees W.json, deletes the
		// count files and uploads W.json; B=2 listed the directory before all that, reads one file,
		// misses the other, and finds neither report nor marker in its snapshot.
		runDirected([]dstep{
			{tid: 2, until: func(ci callInfo, n int) bool { return n >= 2 }},
			{tid: 0, until: func(ci callInfo, n int) bool {
				return ci.op == "OpenFile" && strings.HasPrefix(filepath.Base(ci.path), "local.")
			}},
			{tid: 1, until: func(ci callInfo, n int) bool { return ci.op == "ReadFile" && ci.phase == 2 }},
			{tid: 2, until: func(ci callInfo, n int) bool { return ci.op == "Stat" }},
			{tid: 1, until: never}, {tid: 2, until: never}, {tid: 0, until: never},
		})
		sc.policy = "seq"
	case "grow":
		runDirected([]dstep{
			{tid: 0, until: never},
			{tid: -1, do: func() {
				for name, v2 := range growV2 {
					os.WriteFile(filepath.Join(w.local, name), v2, 0666)
				}
			}},
			{tid: 1, until: never},
		})
		sc.policy = "seq"
	case "oldlock":
		// A=0 holds the lock of a week and is parked before its request; more than a day passes (every
		// lock file of upload/ is back-dated); B=1 runs completely; then A's request goes out.
		runDirected([]dstep{
			{tid: 0, until: func(ci callInfo, n int) bool { return ci.op == "Post" }},
			{tid: -1, do: func() {
				es, _ := os.ReadDir(w.up)
				old := time.Now().Add(-time.Duration(25+rnd.Intn(48)) * time.Hour)
				for _, e := range es {
					if strings.HasSuffix(e.Name(), ".lock") {
						os.Chtimes(filepath.Join(w.up, e.Name()), old, old)
					}
				}
			}},
			{tid: 1, until: never}, {tid: 0, until: never},
		})
		sc.policy = "seq"
	case "lateunlock":
		// A=0 gets no 200 for its first report (lock released), and is parked before the request for its
		// second; B=1 locks the first report's week and is parked before its request; A runs to its END;
		// C=2 runs completely; then B's request goes out.
		runDirected([]dstep{
			{tid: 0, until: func(ci callInfo, n int) bool { return ci.op == "Post" && postsBy[0] >= 1 }},
			{tid: 1, until: func(ci callInfo, n int) bool { return ci.op == "Post" }},
			{tid: 0, until: never}, {tid: 2, until: never}, {tid: 1, until: never},
		})
		sc.policy = "seq"
	case "emptybody":
		runDirected([]dstep{
			{tid: 0, until: func(ci callInfo, n int) bool { return ci.op == "Write" }},
			{tid: 1, until: never}, {tid: 0, until: never},
		})
		sc.policy = "seq"
	}
	runUntilQuiet(main, sc.policy)
	quietAt = nsteps
	if sc.eventual {
		runUntilQuiet([]int{nth - 1}, "seq")
	}
	stopWatch()
	status := "ok"
	if budget == 0 {
		status = "hang"
	}
	if panics > 0 {
		out.Note("thread-panicked")
	}
	out.Note("scenario-" + sc.kind)
	out.Note("policy-" + sc.policy)
	finish(status)
	if dbg {
		fmt.Fprintln(os.Stderr, "---- end of scenario", sc.kind)
	}
}

// caseFields: the case line of a lock-step scenario (also written by the watchdog, with what has
// been observed so far, when a thread neither yields nor returns)
func caseFields(w *world, sc scen, status string, quietAt int, staleLock string, allowed []int64, init0, initUp []string, upPresent bool,
	nth int, starts []time.Time, modeOn bool, asof time.Time, nsteps int, steps []string) []string {
	fields := []string{"up", tag, sc.kind, status, HS(rel(w.local + string(filepath.Separator))), B(sc.eventual), I(int64(quietAt)),
		HS(staleLock), I(int64(len(allowed)))}
	for _, a := range allowed {
		fields = append(fields, I(a))
	}
	fields = append(fields, I(int64(len(init0))))
	fields = append(fields, init0...)
	fields = append(fields, B(upPresent), I(int64(len(initUp))))
	fields = append(fields, initUp...)
	fields = append(fields, I(int64(nth)))
	for i := 0; i < nth; i++ {
		fields = append(fields, I(starts[i].Unix()), I(int64(starts[i].Nanosecond())), B(modeOn), B(!asof.IsZero()), I(asof.Unix()), I(zoneOf(starts[i])))
	}
	fields = append(fields, I(int64(len(w.names))))
	for _, n := range w.names {
		fields = append(fields, HS(n))
	}
	fields = append(fields, I(int64(len(w.descs))))
	fields = append(fields, w.descs...)
	fields = append(fields, I(int64(nsteps)))
	fields = append(fields, steps...)
	return fields
}

func main() {
	outPath := os.Args[1]
	n, _ := strconv.Atoi(os.Args[2])
	tag = "c07"
	if len(os.Args) > 3 {
		tag = os.Args[3]
	}
	rnd = NewRand(Seed())
	out = NewOut(outPath)
	if os.Getenv("VERIF_TIER") == "thorough" {
		buildSweeps()
	}
	var err error
	root, err = os.MkdirTemp("", "vh_upload")
	if err != nil {
		panic(err)
	}
	defer os.RemoveAll(root)
	if tag == "c08tok" {
		for k := 0; k < n; k++ {
			startsCase()
		}
		out.Close()
		return
	}
	if tag == "c05" {
		faultN = n
		for casesDone < n {
			scenario()
		}
		out.Close()
		return
	}
	for i := 0; i < n; i++ {
		scenario()
	}
	out.Close()
}
