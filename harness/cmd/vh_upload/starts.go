// The suite "starts" of C08: a history of program starts on one telemetry
// directory.  Each start calls the real acquireUploadToken (the gate in front
// of every uploader run); between two starts the passage of time is applied
// to the token file: its modification time is moved back by the gap, whatever
// the code under test has made of the file.
package main

import (
	"os"
	"path/filepath"
	"time"

	roottel "golang.org/x/telemetry"
	"golang.org/x/telemetry/internal/telemetry"
	. "golang.org/x/telemetry/internal/verifh/vhlib"
)

func startsCase() {
	scenIdx++
	rnd = NewRand(Seed()*1000003 + uint64(scenIdx))
	dir := filepath.Join(root, I(int64(scenIdx))+"s")
	td := telemetry.NewDir(dir)
	telemetry.Default = td
	os.MkdirAll(td.LocalDir(), 0777)
	defer os.RemoveAll(dir)
	os.WriteFile(td.ModeFile(), []byte("on"), 0666)
	tokenfile := filepath.Join(td.LocalDir(), "upload.token")
	hour := int64(3600)
	gaps := []int64{1 * hour, 5 * hour, 13 * hour, 23*hour + 3540, 24 * hour, 24*hour + 60, 25 * hour, 30 * hour, 49 * hour, 12 * hour, 23 * hour}
	has0, age0 := false, int64(0)
	if rnd.Chance(45) {
		has0 = true
		age0 = Pick(rnd, []int64{0, 1 * hour, 20 * hour, 23*hour + 3540, 24 * hour, 30 * hour, 100 * hour})
		os.WriteFile(tokenfile, nil, 0666)
		m := time.Now().Add(-time.Duration(age0) * time.Second)
		os.Chtimes(tokenfile, m, m)
		out.Note("token-initially-present")
	}
	n := 3 + rnd.Intn(6)
	// a regular rhythm (the program starts every g hours) or irregular gaps
	regular := rnd.Chance(50)
	g0 := Pick(rnd, gaps)
	fields := []string{"tok", B(has0), I(age0), I(int64(n))}
	now := int64(0)
	for k := 0; k < n; k++ {
		if k > 0 {
			gap := g0
			if !regular {
				gap = Pick(rnd, gaps)
			}
			now += gap
			if fi, err := os.Stat(tokenfile); err == nil {
				m := fi.ModTime().Add(-time.Duration(gap) * time.Second)
				os.Chtimes(tokenfile, m, m)
			}
		}
		acq := roottel.VerifAcquireUploadToken()
		has, age := false, int64(0)
		if fi, err := os.Stat(tokenfile); err == nil {
			has = true
			age = int64(time.Since(fi.ModTime()) / time.Second)
		}
		fields = append(fields, I(now), B(acq), B(has), I(age))
		if acq {
			out.Note("start-acquires")
		} else {
			out.Note("start-refused")
		}
	}
	if regular {
		out.Note("rhythm-regular")
	} else {
		out.Note("rhythm-irregular")
	}
	out.Case(true, fields...)
}
