// vh_approval: correspondence harness for C11.  One generated configuration
// and 1-3 counter files per case; the REAL uploader builds the upload report
// (X chosen through crypto/rand.Reader), the REAL server-side validate and
// handleUpload judge that report and single-item perturbations of it, and the
// REAL viewer (summary, newCounterFile) describes every file; a second
// uploader run at X = 0 on the whole week gives what the uploader would keep
// at the most permissive X.
//
// validate/handleUpload live in package main of the godev module and the
// viewer in an internal package of cmd/gotelemetry, so they run in two helper
// processes built from the same scratch copy (../bin-vh_server,
// ../bin-vh_view; see checks/C11.py) and are driven over pipes.
package main

import (
	"bufio"
	crand "crypto/rand"
	"encoding/json"
	"fmt"
	"html"
	"math"
	"os"
	"os/exec"
	"path/filepath"
	"regexp"
	"sort"
	"strconv"
	"strings"
	"time"

	"golang.org/x/telemetry/internal/counter"
	"golang.org/x/telemetry/internal/telemetry"
	"golang.org/x/telemetry/internal/upload"
	. "golang.org/x/telemetry/internal/verifh/vh_replib"
	. "golang.org/x/telemetry/internal/verifh/vhlib"
)

var rnd *Rand
var out *Out
var root string

// ---------------------------------------------------------------- helper processes

type helper struct {
	cmd *exec.Cmd
	in  *bufio.Writer
	out *bufio.Reader
	log *tailBuf
}

// tailBuf keeps the last part of a helper's stderr (the server logs every refusal)
type tailBuf struct{ b []byte }

func (t *tailBuf) Write(p []byte) (int, error) {
	t.b = append(t.b, p...)
	if len(t.b) > 1<<16 {
		t.b = t.b[len(t.b)-1<<15:]
	}
	return len(p), nil
}

func startHelper(path string, env ...string) *helper {
	if _, err := os.Stat(path); err != nil {
		log, _ := os.ReadFile(filepath.Join(filepath.Dir(path), "helper-build.log"))
		fmt.Fprintf(os.Stderr, "helper %s is missing (it did not build against the working tree):\n%s\n", path, log)
		os.Exit(3)
	}
	cmd := exec.Command(path)
	cmd.Env = append(os.Environ(), env...)
	tb := &tailBuf{}
	cmd.Stderr = tb
	w, _ := cmd.StdinPipe()
	r, _ := cmd.StdoutPipe()
	if err := cmd.Start(); err != nil {
		fmt.Fprintln(os.Stderr, err)
		os.Exit(3)
	}
	return &helper{cmd, bufio.NewWriter(w), bufio.NewReaderSize(r, 1<<20), tb}
}

func (h *helper) call(req any, res any) {
	b, err := json.Marshal(req)
	if err != nil {
		panic(err)
	}
	h.in.Write(b)
	h.in.WriteByte('\n')
	h.in.Flush()
	line, err := h.out.ReadBytes('\n')
	if err != nil {
		h.cmd.Wait()
		fmt.Fprintf(os.Stderr, "helper %s died: %v\n%s\n", h.cmd.Path, err, h.log.b)
		os.Exit(3)
	}
	if err := json.Unmarshal(line, res); err != nil {
		panic(err)
	}
}

type serverRes struct {
	Verdict    string
	Status     int
	Semver     bool
	Stored     bool
	StoredBody string
	Statuses   []int
}

var reportMembers = map[string]bool{"Week": true, "LastWeek": true, "X": true, "Programs": true, "Config": true}
var programMembers = map[string]bool{"Program": true, "Version": true, "GoVersion": true, "GOOS": true, "GOARCH": true, "Counters": true, "Stacks": true}

// lenientReport reads the TEXT of a stored object the way a reader other than
// encoding/json may: of a duplicated member the FIRST occurrence counts,
// duplicated Programs arrays and Counters/Stacks objects are merged (first
// value of a key wins); extra reports members outside the report format.
func lenientReport(data []byte) (rep *telemetry.Report, extra bool, ok bool) {
	dec := json.NewDecoder(strings.NewReader(string(data)))
	dec.UseNumber()
	rep = &telemetry.Report{}
	tok, err := dec.Token()
	if err != nil || tok != json.Delim('{') {
		return rep, false, false
	}
	seen := map[string]bool{}
	str := func() string { var s string; dec.Decode(&s); return s }
	readMap := func(into map[string]int64) bool {
		t, err := dec.Token()
		if err != nil {
			return false
		}
		if t == nil {
			return true
		}
		if t != json.Delim('{') {
			return false
		}
		for dec.More() {
			k, _ := dec.Token()
			var v json.Number
			if err := dec.Decode(&v); err != nil {
				return false
			}
			n, _ := v.Int64()
			if _, dup := into[k.(string)]; !dup {
				into[k.(string)] = n
			}
		}
		dec.Token()
		return true
	}
	for dec.More() {
		kt, err := dec.Token()
		if err != nil {
			return rep, extra, false
		}
		k := kt.(string)
		first := !seen[k]
		seen[k] = true
		switch k {
		case "Week":
			if v := str(); first {
				rep.Week = v
			}
		case "LastWeek":
			if v := str(); first {
				rep.LastWeek = v
			}
		case "Config":
			if v := str(); first {
				rep.Config = v
			}
		case "X":
			var v float64
			dec.Decode(&v)
			if first {
				rep.X = v
			}
		case "Programs":
			t, err := dec.Token()
			if err != nil {
				return rep, extra, false
			}
			if t == nil {
				continue
			}
			for dec.More() {
				if t, _ := dec.Token(); t != json.Delim('{') {
					return rep, extra, false
				}
				p := &telemetry.ProgramReport{Counters: map[string]int64{}, Stacks: map[string]int64{}}
				pseen := map[string]bool{}
				for dec.More() {
					ft, _ := dec.Token()
					fk := ft.(string)
					pfirst := !pseen[fk]
					pseen[fk] = true
					switch fk {
					case "Program", "Version", "GoVersion", "GOOS", "GOARCH":
						v := str()
						if pfirst {
							switch fk {
							case "Program":
								p.Program = v
							case "Version":
								p.Version = v
							case "GoVersion":
								p.GoVersion = v
							case "GOOS":
								p.GOOS = v
							default:
								p.GOARCH = v
							}
						}
					case "Counters":
						if !readMap(p.Counters) {
							return rep, extra, false
						}
					case "Stacks":
						if !readMap(p.Stacks) {
							return rep, extra, false
						}
					default:
						extra = true
						var skip json.RawMessage
						dec.Decode(&skip)
					}
				}
				dec.Token()
				rep.Programs = append(rep.Programs, p)
			}
			dec.Token()
		default:
			extra = true
			var skip json.RawMessage
			dec.Decode(&skip)
		}
	}
	_ = reportMembers
	_ = programMembers
	return rep, extra, true
}

// wStored: the wire fields describing what the handler stored for a request
func wStored(res serverRes) []string {
	if !res.Stored {
		return []string{"nostored"}
	}
	rep, extra, ok := lenientReport([]byte(res.StoredBody))
	if !ok {
		return []string{"stored-unreadable"}
	}
	return append(append([]string{"stored"}, WReport(rep)...), B(extra))
}

// rawVariant: a request BODY whose JSON text says more than its decoding into
// the report type: a duplicated Programs member (first: a program build outside
// the configuration, last: the report's own), a duplicated member inside a
// program entry, or members the report format does not have.
func rawVariant(base *telemetry.Report, ucfg *telemetry.UploadConfig) ([]byte, string) {
	enc := func(v any) string { b, _ := json.Marshal(v); return string(b) }
	progs := enc(base.Programs)
	if base.Programs == nil {
		progs = "[]"
	}
	head := fmt.Sprintf(`"Week":%s,"LastWeek":%s,"X":%s,"Config":%s`, enc(base.Week), enc(base.LastWeek), enc(base.X), enc(base.Config))
	outside := &telemetry.ProgramReport{Program: "outside/prog", Version: "v9.9.9", GoVersion: "go0", GOOS: "plan9", GOARCH: "z80",
		Counters: map[string]int64{"secret/counter": 7}, Stacks: map[string]int64{"secret/stack\nmain.f:1": 1}}
	switch rnd.Intn(4) {
	case 0:
		return []byte("{" + head + `,"Programs":` + enc([]*telemetry.ProgramReport{outside}) + `,"Programs":` + progs + "}"), "dup-programs"
	case 1:
		if len(base.Programs) > 0 {
			p := base.Programs[0]
			entry := fmt.Sprintf(`{"Program":"outside/prog","Program":%s,"Version":%s,"GoVersion":%s,"GOOS":%s,"GOARCH":%s,"Counters":{"secret/counter":3},"Counters":%s,"Stacks":%s}`,
				enc(p.Program), enc(p.Version), enc(p.GoVersion), enc(p.GOOS), enc(p.GOARCH), enc(p.Counters), enc(p.Stacks))
			rest := ""
			for _, q := range base.Programs[1:] {
				rest += "," + enc(q)
			}
			return []byte("{" + head + `,"Programs":[` + entry + rest + "]}"), "dup-field"
		}
		fallthrough
	case 2:
		return []byte("{" + head + `,"Hostname":"build-7.corp.example","Programs":` + progs + "}"), "extra-member"
	default:
		if len(base.Programs) > 0 {
			var parts []string
			for i, q := range base.Programs {
				e := enc(q)
				if i == 0 {
					e = e[:len(e)-1] + `,"Env":{"HOME":"/home/u"}}`
				}
				parts = append(parts, e)
			}
			return []byte("{" + head + `,"Programs":[` + strings.Join(parts, ",") + "]}"), "extra-program-member"
		}
		return []byte("{" + head + `,"Week":"1999-01-01","Programs":` + progs + "}"), "dup-week"
	}
}

type viewRow struct {
	Name   string
	Trace  string
	Active bool
}
type viewRes struct {
	ID         string
	Summary    string
	ActiveMeta map[string]bool
	Counts     []viewRow
	Stacks     []viewRow
}

type viewProgram struct {
	Program, Version, GoVersion, GOOS, GOARCH string
	Summary                                   string
}
type viewReport struct {
	Week     string
	Programs []viewProgram
}

var server, viewer *helper

func askServer(cfg *telemetry.UploadConfig, body []byte) serverRes {
	var res serverRes
	server.call(map[string]any{"Cfg": cfg, "Report": string(body)}, &res)
	return res
}

// ---------------------------------------------------------------- one uploader run

type fileSpec = FileSpec

// week: the dates of one case
type week struct{ begin, end, start time.Time }

func genWeek() week {
	end := time.Date(2001+rnd.Intn(90), time.Month(1+rnd.Intn(12)), 1+rnd.Intn(28), 0, 0, 0, 0, time.UTC)
	return week{end.AddDate(0, 0, -7), end, end.Add(time.Hour + time.Duration(rnd.Int63n(int64(19*24*time.Hour))))}
}

// runUploader writes the (placed) files into a fresh telemetry dir, calls
// hook(local dir) while the count files are there, and runs the real
// findWork+reports with X = XOf(m); returns the bytes of local/<week>.json and
// local/local.<week>.json (nil when not written) and the files as the real parser reads them.
func runUploader(ucfg *telemetry.UploadConfig, cfgVersion string, m uint64, w week, files []fileSpec, hook func(localDir string)) (body, localBody []byte, parsed [][]string) {
	dir, err := os.MkdirTemp(root, "t")
	if err != nil {
		panic(err)
	}
	defer os.RemoveAll(dir)
	tdir := telemetry.NewDir(dir)
	os.MkdirAll(tdir.LocalDir(), 0777)
	os.MkdirAll(tdir.UploadDir(), 0777)
	if err := tdir.SetModeAsOf("on", w.begin.AddDate(0, 0, -30)); err != nil {
		panic(err)
	}
	for _, fs := range files {
		data := EncodeCountFile(MetaString(fs.Begin.Format(time.RFC3339), w.end.Format(time.RFC3339), fs.ID, fs.Omit), fs.Counts)
		name := filepath.Join(tdir.LocalDir(), fs.Name)
		if err := os.WriteFile(name, data, 0666); err != nil {
			panic(err)
		}
		pf, err := counter.Parse(name, data)
		if err != nil {
			pf = &counter.File{}
		}
		parsed = append(parsed, WFileRef(fs, pf.Meta, pf.Count, err))
	}
	if hook != nil {
		hook(tdir.LocalDir())
	}
	crand.Reader = &CycleReader{Data: RandBytesFor(rnd, m)}
	u := upload.VerifNewUploader(dir, "http://127.0.0.1:1", w.start, ucfg, cfgVersion, nil)
	if _, err := u.Reports(); err != nil {
		panic(err)
	}
	wk := w.end.Format("2006-01-02")
	body, _ = os.ReadFile(filepath.Join(tdir.LocalDir(), wk+".json"))
	localBody, _ = os.ReadFile(filepath.Join(tdir.LocalDir(), "local."+wk+".json"))
	return body, localBody, parsed
}

// viewReports: the viewer's reports() on a directory holding exactly this one report file
func viewReports(ucfg *telemetry.UploadConfig, name string, data []byte) []viewReport {
	dir, err := os.MkdirTemp(root, "r")
	if err != nil {
		panic(err)
	}
	defer os.RemoveAll(dir)
	if err := os.WriteFile(filepath.Join(dir, name), data, 0666); err != nil {
		panic(err)
	}
	var res struct{ Reports []viewReport }
	viewer.call(map[string]any{"Cfg": ucfg, "Dir": dir, "What": "reports"}, &res)
	return res.Reports
}

// ---------------------------------------------------------------- perturbations of a report

func cloneReport(r *telemetry.Report) *telemetry.Report {
	c := *r
	c.Programs = nil
	for _, p := range r.Programs {
		q := *p
		q.Counters = map[string]int64{}
		q.Stacks = map[string]int64{}
		for k, v := range p.Counters {
			q.Counters[k] = v
		}
		for k, v := range p.Stacks {
			q.Stacks[k] = v
		}
		c.Programs = append(c.Programs, &q)
	}
	return &c
}

func perturb(r *telemetry.Report, ucfg *telemetry.UploadConfig) (*telemetry.Report, string) {
	c := cloneReport(r)
	pickProg := func() *telemetry.ProgramReport {
		if len(c.Programs) == 0 {
			id := GenIdent(rnd, ucfg)
			c.Programs = append(c.Programs, &telemetry.ProgramReport{Program: id.Program, Version: id.Version, GoVersion: id.GoVersion,
				GOOS: id.GOOS, GOARCH: id.GOARCH, Counters: map[string]int64{}, Stacks: map[string]int64{}})
		}
		return Pick(rnd, c.Programs)
	}
	switch rnd.Intn(13) {
	case 12:
		// the chart name of a configured bucketed counter, without bucket
		p := pickProg()
		var prefixes []string
		for _, pc := range ucfg.Programs {
			for _, cc := range pc.Counters {
				if i := strings.Index(cc.Name, ":"); i >= 0 {
					prefixes = append(prefixes, cc.Name[:i])
				}
			}
		}
		if len(prefixes) == 0 {
			prefixes = []string{"chart"}
		}
		p.Counters[Pick(rnd, prefixes)] = 1
		return c, "chart-prefix"
	case 0:
		return c, "none"
	case 1:
		p := pickProg()
		p.Counters[GenCounterName(rnd, ucfg, p.Program)] = int64(rnd.Intn(100))
		return c, "add-counter"
	case 2:
		p := pickProg()
		p.Stacks[GenStackName(rnd, ucfg, p.Program)] = int64(rnd.Intn(100))
		return c, "add-stack"
	case 3:
		pickProg().Program = GenIdent(rnd, ucfg).Program
		return c, "program"
	case 4:
		pickProg().Version = GenIdent(rnd, ucfg).Version
		return c, "version"
	case 5:
		pickProg().GoVersion = GenIdent(rnd, ucfg).GoVersion
		return c, "goversion"
	case 6:
		pickProg().GOOS = GenIdent(rnd, ucfg).GOOS
		return c, "goos"
	case 7:
		pickProg().GOARCH = GenIdent(rnd, ucfg).GOARCH
		return c, "goarch"
	case 8:
		c.Week = Pick(rnd, []string{"2024-13-01", "2023-02-29", "2024-02-29", "24-01-01", "", "2024-01-08x", "2024-1-8", "2024/01/08", "0000-01-01", "2024-00-10", "2024-04-31", " 2024-01-08"})
		return c, "week"
	case 9:
		c.Config = Pick(rnd, []string{"", "1.2.3", "v1", "v1.2", "v1.2.3", "v1.2.3-pre", "v1.2.3+meta", "vx.y.z", "v01.2.3", "v0.0.0-0", "V1.2.3", "v1.2.3 "})
		return c, "config"
	case 10:
		c.X = Pick(rnd, []float64{0, math.Copysign(0, -1), 5e-324, 1, 0.5})
		return c, "x"
	default:
		// a stack title configured only as a counter, or the reverse
		p := pickProg()
		if rnd.Bool() {
			p.Counters[strings.ReplaceAll(GenStackName(rnd, ucfg, p.Program), "\n", "")+"z"] = 1
		} else {
			p.Stacks[GenCounterName(rnd, ucfg, p.Program)+"\n"] = 1
		}
		return c, "cross"
	}
}

// ---------------------------------------------------------------- viewer

func classifySummary(s string) (class string, names []string) {
	const msg = " is unregistered. No data from this set would be uploaded to the Go team."
	switch {
	case s == "":
		return "clean", nil
	case strings.HasPrefix(s, "The program <code>") && strings.HasSuffix(s, msg):
		return "program", nil
	case strings.HasPrefix(s, "The GOOS/GOARCH combination <code>") && strings.HasSuffix(s, msg):
		return "osarch", nil
	case strings.HasPrefix(s, "The go version <code>") && strings.HasSuffix(s, msg):
		return "goversion", nil
	case strings.HasPrefix(s, "The version <code>") && strings.HasSuffix(s, msg):
		return "version", nil
	case strings.HasPrefix(s, "Unregistered counter(s) <code>") && strings.HasSuffix(s, "</code> would be excluded from a report. "):
		body := strings.TrimSuffix(strings.TrimPrefix(s, "Unregistered counter(s) <code>"), "</code> would be excluded from a report. ")
		for _, n := range strings.Split(body, "</code>, <code>") {
			names = append(names, html.UnescapeString(n))
		}
		sort.Strings(names)
		return "counters", names
	}
	return "other", nil
}

// ---------------------------------------------------------------- a case

func caseApproval() {
	m := GenX(rnd)
	if rnd.Chance(70) && m == 0 {
		m = GenX(rnd) // X = 0 stays in, less often
	}
	x := XOf(m)
	ucfg := GenConfig(rnd, x)
	if !RatesOK(ucfg) {
		panic("generator produced a rate outside the modelled domain")
	}
	ucfg.SampleRate = Pick(rnd, []float64{0, 1}) // sampling never blocks here (C02's concern)
	cfgVersion := Pick(rnd, []string{"v0.1.0", "v1.2.3", "v0.0.0-0", "v0.33.0", "v1.2.3-pre"})
	nb := 1 + rnd.Intn(3)
	builds := []Ident{GenIdent(rnd, ucfg)}
	for len(builds) < nb {
		b := builds[0]
		switch rnd.Intn(6) {
		case 0:
			b.Program = GenIdent(rnd, ucfg).Program
		case 1:
			b.Version = GenIdent(rnd, ucfg).Version
		case 2:
			b.GoVersion = GenIdent(rnd, ucfg).GoVersion
		case 3:
			b.GOOS = GenIdent(rnd, ucfg).GOOS
		case 4:
			b.GOARCH = GenIdent(rnd, ucfg).GOARCH
		default:
			b = GenIdent(rnd, ucfg)
		}
		builds = append(builds, b)
	}
	BigValues = false
	nf := 1 + rnd.Intn(3)
	var files []fileSpec
	if rnd.Chance(15) {
		// two different programs with the same base name, version and platform, one of them approved
		ucfg, files = GenSameBaseWeek(rnd, x)
		nf = len(files)
		out.Note("same-base-week")
	} else if rnd.Chance(35) {
		// several programs recording items of the same names, approved differently per program
		var shared []FileSpec
		ucfg, shared = GenSharedNamesWeek(rnd, x)
		ucfg.SampleRate = Pick(rnd, []float64{0, 1})
		for _, f := range shared {
			files = append(files, f)
		}
		nf = len(files)
		out.Note("shared-names-week")
	} else {
		for i := 0; i < nf; i++ {
			b := Pick(rnd, builds)
			fs := fileSpec{ID: b, Counts: GenCounts(rnd, ucfg, b.Program, 7)}
			if rnd.Chance(4) {
				fs.Omit = 1 + rnd.Intn(5)
				out.Note("meta-line-omitted")
			}
			files = append(files, fs)
		}
	}
	f := []string{"approval"}
	f = append(f, WConfig(ucfg)...)

	// the week's files as they lie in the directory (names as rotate1 writes them in half of the cases)
	w := genWeek()
	realistic := rnd.Chance(60)
	if realistic {
		out.Note("rotate1-file-names")
	}
	files = PlaceFiles(rnd, files, w.begin, w.end, realistic)
	// the viewer's files() on the directory while the count files are there
	var fileViews struct{ Files []viewRes }
	// the uploader's report under this configuration, judged by the server
	body, localBody, parsed := runUploader(ucfg, cfgVersion, m, w, files, func(localDir string) {
		viewer.call(map[string]any{"Cfg": ucfg, "Dir": localDir, "What": "files"}, &fileViews)
	})
	f = append(f, I(int64(len(parsed))))
	for _, pf := range parsed {
		f = append(f, pf...)
	}
	var base telemetry.Report
	if body != nil {
		if err := json.Unmarshal(body, &base); err != nil {
			panic(err)
		}
		res := askServer(ucfg, body)
		f = append(f, "up")
		f = append(f, WReport(&base)...)
		f = append(f, res.Verdict, I(int64(res.Status)), B(res.Semver), B(res.Stored))
		f = append(f, wStored(res)...)
		out.Note("uploader-report-" + res.Verdict)
		if len(base.Programs) > 0 {
			out.Note("uploader-report-has-programs")
		}
	} else {
		f = append(f, "noup")
		base = telemetry.Report{Week: "2024-01-08", X: math.Max(x, 0x1p-52), Config: cfgVersion}
		out.Note("no-uploader-report")
	}
	// single-item perturbations of it
	nv := 2 + rnd.Intn(3)
	f = append(f, I(int64(nv)))
	for i := 0; i < nv; i++ {
		var r *telemetry.Report
		var what string
		var b []byte
		if rnd.Chance(20) {
			// the body says more than its decoding
			src := cloneReport(&base)
			if src.X == 0 {
				src.X = 0.25
			}
			b, what = rawVariant(src, ucfg)
			r = &telemetry.Report{}
			if err := json.Unmarshal(b, r); err != nil {
				panic(fmt.Sprintf("raw variant does not decode: %v\n%s", err, b))
			}
		} else {
			r, what = perturb(&base, ucfg)
			if base.X == 0 && what != "x" && rnd.Chance(80) {
				r.X = 0.25 // keep the perturbed item decisive
			}
			var err error
			b, err = json.Marshal(r)
			if err != nil {
				panic(err)
			}
		}
		res := askServer(ucfg, b)
		f = append(f, WReport(r)...)
		f = append(f, res.Verdict, I(int64(res.Status)), B(res.Semver), B(res.Stored))
		f = append(f, wStored(res)...)
		out.Note("variant-" + what + "-" + res.Verdict)
	}
	// the uploader's own report once more, verbatim, after the perturbed ones (the
	// handler's answer to a request must not depend on what was posted before)
	if body != nil {
		res := askServer(ucfg, body)
		f = append(f, "again", res.Verdict, I(int64(res.Status)), B(res.Semver), B(res.Stored))
		f = append(f, wStored(res)...)
		out.Note("uploader-report-again-" + strconv.Itoa(res.Status))
	} else {
		f = append(f, "noagain")
	}
	// a freshly started server (one configuration object, one handler) receiving the uploader's
	// report from several clients at the same moment; the configuration is the case's plus an
	// unrelated counter with a very long bucket list on every program of the report (so that
	// whatever the server prepares per program takes a while)
	nitems := 0
	for _, p := range base.Programs {
		nitems += len(p.Counters) + len(p.Stacks)
	}
	if body != nil && nitems > 0 && rnd.Chance(4) {
		big := cloneConfig(ucfg)
		var sb strings.Builder
		sb.WriteString("zzbig:{")
		for i := 0; i < 120000; i++ {
			if i > 0 {
				sb.WriteByte(',')
			}
			sb.WriteString("b")
			sb.WriteString(strconv.Itoa(i))
		}
		sb.WriteString("}")
		inReport := map[string]bool{}
		for _, p := range base.Programs {
			inReport[p.Program] = true
		}
		for _, p := range big.Programs {
			if inReport[p.Name] {
				p.Counters = append([]telemetry.CounterConfig{{Name: sb.String(), Rate: 1}}, p.Counters...)
			}
		}
		var res serverRes
		server.call(map[string]any{"Cfg": big, "Report": string(body), "Burst": 8}, &res)
		f = append(f, "burst", I(int64(len(res.Statuses))))
		for _, st := range res.Statuses {
			f = append(f, I(int64(st)))
		}
		out.Note("burst")
	} else {
		f = append(f, "noburst")
	}
	// the uploader at X = 0 (the most permissive X) on the whole week
	anyCount := false
	for _, fs := range files {
		if len(fs.Counts) > 0 {
			anyCount = true
		}
	}
	if anyCount {
		b0, _, _ := runUploader(ucfg, cfgVersion, 0, w, files, nil)
		if b0 == nil {
			panic("no upload report at X = 0")
		}
		var r0 telemetry.Report
		if err := json.Unmarshal(b0, &r0); err != nil {
			panic(err)
		}
		if r0.X != 0 {
			panic("X = 0 was not honoured")
		}
		f = append(f, "some")
		f = append(f, WReport(&r0)...)
	} else {
		f = append(f, "none")
	}
	// the viewer on every count file (through files(dir, cfg), in directory order)
	if len(fileViews.Files) != len(files) {
		panic(fmt.Sprintf("the viewer's files() shows %d of %d count files", len(fileViews.Files), len(files)))
	}
	for i, vr := range fileViews.Files {
		if vr.ID != files[i].Name {
			panic("the viewer's files() lists the count files in another order")
		}
		class, names := classifySummary(vr.Summary)
		out.Note("viewer-" + class)
		f = append(f, class)
		f = append(f, WStrs(names)...)
		for _, k := range []string{"Program", "Version", "GOOS", "GOARCH", "GoVersion"} {
			f = append(f, B(vr.ActiveMeta[k]))
		}
		type ka struct {
			k string
			a bool
		}
		var rows []ka
		for _, c := range vr.Counts {
			rows = append(rows, ka{c.Name, c.Active})
		}
		for _, s := range vr.Stacks {
			rows = append(rows, ka{s.Name + "\n" + s.Trace, s.Active})
		}
		sort.Slice(rows, func(a, b int) bool { return rows[a].k < rows[b].k })
		f = append(f, I(int64(len(rows))))
		for _, r := range rows {
			f = append(f, HS(r.k), B(r.a))
		}
	}
	// the viewer on the week's reports (through reports(dir, cfg)): the local
	// (unfiltered) report and the upload report, each alone in a directory
	type rv struct {
		tag  string
		name string
		data []byte
	}
	var rvs []rv
	wk := w.end.Format("2006-01-02")
	if localBody != nil {
		rvs = append(rvs, rv{"local", "local." + wk + ".json", localBody})
	}
	if body != nil {
		rvs = append(rvs, rv{"upload", wk + ".json", body})
	}
	f = append(f, I(int64(len(rvs))))
	for _, r := range rvs {
		var rep telemetry.Report
		if err := json.Unmarshal(r.data, &rep); err != nil {
			panic(err)
		}
		views := viewReports(ucfg, r.name, r.data)
		if len(views) != 1 || views[0].Week != rep.Week || len(views[0].Programs) != len(rep.Programs) {
			panic(fmt.Sprintf("the viewer's reports() does not show the %s report as one report with all its programs", r.tag))
		}
		f = append(f, r.tag)
		f = append(f, WReport(&rep)...)
		for i, vp := range views[0].Programs {
			p := rep.Programs[i]
			if vp.Program != p.Program || vp.Version != p.Version || vp.GoVersion != p.GoVersion || vp.GOOS != p.GOOS || vp.GOARCH != p.GOARCH {
				panic("the viewer's reports() shows the programs of a report in another order")
			}
			class, names := classifySummary(vp.Summary)
			out.Note("report-view-" + r.tag + "-" + class)
			if len(p.Stacks) > 0 {
				out.Note("report-view-" + r.tag + "-program-with-stacks")
			}
			f = append(f, class)
			f = append(f, WStrs(names)...)
		}
	}
	out.Note(fmt.Sprintf("files-%d", nf))
	out.Case(true, f...)
}

// ---------------------------------------------------------------- the viewer's index page over several requests

var fileBlockRE = regexp.MustCompile(`(?s)<h3 id="([^"]*)">`)
var summaryRE = regexp.MustCompile(`(?s)<div class="Summary">(.*?)</div>`)

// pageSummaries: per count file (by its name) the text of its Summary div ("" when absent)
func pageSummaries(body string) map[string]string {
	res := map[string]string{}
	i := strings.Index(body, `<section class="Files">`)
	if i < 0 {
		return res
	}
	sec := body[i:]
	if j := strings.Index(sec, "</section>"); j >= 0 {
		sec = sec[:j]
	}
	blocks := strings.Split(sec, `<div class="File">`)
	for _, b := range blocks[1:] {
		m := fileBlockRE.FindStringSubmatch(b)
		if m == nil {
			continue
		}
		sum := ""
		if sm := summaryRE.FindStringSubmatch(b); sm != nil {
			sum = sm[1]
		}
		res[html.UnescapeString(m[1])] = sum
	}
	return res
}

var chartProgRE = regexp.MustCompile(`(?s)<h3 id="[^"]*" data-label="([^"]*)">`)
var chartNameRE = regexp.MustCompile(`(?s)<h4 id="[^"]*" data-label="([^"]*)">(.*?)</h4>`)

type chartFlag struct {
	prog, name string
	active     bool
}

// pageCharts: the charts of the page's Charts section: program, chart name,
// and whether the chart is shown WITHOUT "This counter is not present in the telemetry config"
func pageCharts(body string) []chartFlag {
	var res []chartFlag
	i := strings.Index(body, `<section class="Charts">`)
	if i < 0 {
		return res
	}
	sec := body[i:]
	if j := strings.Index(sec, "</section>"); j >= 0 {
		sec = sec[:j]
	}
	for _, blk := range strings.Split(sec, `<div class="Chart">`)[1:] {
		pm := chartProgRE.FindStringSubmatch(blk)
		if pm == nil {
			continue
		}
		prog := html.UnescapeString(pm[1])
		for _, cm := range chartNameRE.FindAllStringSubmatch(blk, -1) {
			res = append(res, chartFlag{prog, html.UnescapeString(cm[1]),
				!strings.Contains(cm[2], "This counter is not present in the telemetry config")})
		}
	}
	sort.Slice(res, func(a, b int) bool {
		if res[a].prog != res[b].prog {
			return res[a].prog < res[b].prog
		}
		return res[a].name < res[b].name
	})
	return res
}

func cloneConfig(c *telemetry.UploadConfig) *telemetry.UploadConfig {
	b, _ := json.Marshal(c)
	var d telemetry.UploadConfig
	json.Unmarshal(b, &d)
	return &d
}

// olderConfig: the configuration one version earlier: something the newer one approves is missing
func olderConfig(cfg *telemetry.UploadConfig, files []fileSpec) *telemetry.UploadConfig {
	old := cloneConfig(cfg)
	f := Pick(rnd, files)
	for tries := 0; tries < 4; tries++ {
		switch rnd.Intn(6) {
		case 0: // the program was not there yet
			var ps []*telemetry.ProgramConfig
			for _, p := range old.Programs {
				if p.Name != f.ID.Program {
					ps = append(ps, p)
				}
			}
			old.Programs = ps
		case 1: // its counters were not there yet
			for _, p := range old.Programs {
				if p.Name == f.ID.Program && len(p.Counters) > 0 {
					p.Counters = p.Counters[:len(p.Counters)/2]
				}
			}
		case 2: // nor its stacks
			for _, p := range old.Programs {
				if p.Name == f.ID.Program {
					p.Stacks = nil
				}
			}
		case 3: // the version was not released yet
			for _, p := range old.Programs {
				var vs []string
				for _, v := range p.Versions {
					if v != f.ID.Version {
						vs = append(vs, v)
					}
				}
				p.Versions = vs
			}
		case 4: // nor the Go version
			var vs []string
			for _, v := range old.GoVersion {
				if v != f.ID.GoVersion {
					vs = append(vs, v)
				}
			}
			old.GoVersion = vs
		default:
			return GenConfig(rnd, 0.5)
		}
	}
	return old
}

// casePages: ONE viewer Server (helper: view.Server + handleIndex over the
// embedded content, config fetched by the real configstore.Download from a
// file:// proxy holding two versions) answers a sequence of page requests for
// different configuration versions, with the proxy unreachable for some; every
// page's per-file summaries are compared with the model and judged by the
// oracle under the configuration THAT request names.
func casePages() {
	x := 0.5
	var cfgNew *telemetry.UploadConfig
	var files []fileSpec
	BigValues = false
	switch rnd.Intn(3) {
	case 0:
		cfgNew, files = GenSharedNamesWeek(rnd, x)
	case 1:
		cfgNew, files = GenSameBaseWeek(rnd, x)
	default:
		cfgNew = GenConfig(rnd, x)
		for i := 0; i < 1+rnd.Intn(3); i++ {
			b := GenIdent(rnd, cfgNew)
			files = append(files, fileSpec{ID: b, Counts: GenCounts(rnd, cfgNew, b.Program, 6)})
		}
	}
	cfgOld := olderConfig(cfgNew, files)
	w := genWeek()
	files = PlaceFiles(rnd, files, w.begin, w.end, rnd.Bool())
	dir, err := os.MkdirTemp(root, "p")
	if err != nil {
		panic(err)
	}
	defer os.RemoveAll(dir)
	tdir := telemetry.NewDir(dir)
	os.MkdirAll(tdir.LocalDir(), 0777)
	f := []string{"pages", I(int64(len(files)))}
	for _, fs := range files {
		data := EncodeCountFile(MetaString(fs.Begin.Format(time.RFC3339), w.end.Format(time.RFC3339), fs.ID, fs.Omit), fs.Counts)
		name := filepath.Join(tdir.LocalDir(), fs.Name)
		if err := os.WriteFile(name, data, 0666); err != nil {
			panic(err)
		}
		pf, err := counter.Parse(name, data)
		if err != nil {
			pf = &counter.File{}
		}
		f = append(f, WFileRef(fs, pf.Meta, pf.Count, err)...)
	}
	empty := &telemetry.UploadConfig{}
	type preq struct {
		Version string
		ProxyUp bool
	}
	patterns := [][]preq{
		{{"v1.0.0", true}, {"latest", true}},
		{{"latest", true}, {"v1.0.0", true}, {"latest", true}},
		{{"", false}, {"latest", true}},
		{{"v1.0.0", false}, {"v1.0.0", true}, {"", true}},
		{{"empty", true}, {"v1.1.0", true}, {"v1.0.0", true}},
		{{"v1.1.0", true}, {"empty", true}, {"latest", true}},
	}
	reqs := Pick(rnd, patterns)
	var res struct {
		Pages []struct {
			Status int
			Body   string
		}
	}
	viewer.call(map[string]any{"What": "pages", "Dir": dir,
		"Configs": map[string]*telemetry.UploadConfig{"v1.0.0": cfgOld, "v1.1.0": cfgNew}, "Requests": reqs}, &res)
	if len(res.Pages) != len(reqs) {
		panic("the viewer helper did not answer every page request")
	}
	f = append(f, I(int64(len(reqs))))
	for i, r := range reqs {
		// the configuration this request names (documented: "" = latest = newest version; an
		// unreachable store falls back to the empty configuration)
		want := empty
		switch {
		case r.Version == "empty":
		case !r.ProxyUp:
		case r.Version == "v1.0.0":
			want = cfgOld
		default:
			want = cfgNew
		}
		out.Note("page-" + map[bool]string{true: "up", false: "down"}[r.ProxyUp] + "-" + r.Version)
		f = append(f, HS(r.Version), B(r.ProxyUp))
		f = append(f, WConfig(want)...)
		f = append(f, I(int64(res.Pages[i].Status)))
		sums := pageSummaries(res.Pages[i].Body)
		for _, fs := range files {
			s, ok := sums[fs.Name]
			class, names := "missing", []string(nil)
			if ok {
				class, names = classifySummary(s)
			}
			f = append(f, class)
			f = append(f, WStrs(names)...)
		}
		charts := pageCharts(res.Pages[i].Body)
		f = append(f, I(int64(len(charts))))
		for _, c := range charts {
			f = append(f, HS(c.prog), HS(c.name), B(c.active))
			if !c.active {
				out.Note("chart-flagged-absent")
			}
		}
	}
	out.Note(fmt.Sprintf("pages-%d", len(reqs)))
	out.Case(true, f...)
}

// countFDs: open file descriptors of this process
func countFDs() int {
	ents, err := os.ReadDir("/proc/self/fd")
	if err != nil {
		return 0
	}
	return len(ents)
}

func main() {
	outPath := os.Args[1]
	n, _ := strconv.Atoi(os.Args[2])
	rnd = NewRand(Seed())
	out = NewOut(outPath)
	var err error
	root, err = os.MkdirTemp("", "vh_approval")
	if err != nil {
		panic(err)
	}
	defer os.RemoveAll(root)
	server = startHelper("../bin-vh_server", "VERIF_HARNESS=approval-server")
	viewer = startHelper("../bin-vh_view")
	fds0 := countFDs()
	for i := 0; i < n; i++ {
		// watchdog: a case that does not come back is reported with its number, not left to the outer timeout
		done := make(chan struct{})
		go func() {
			defer close(done)
			if i%25 == 3 {
				casePages()
			} else {
				caseApproval()
			}
		}()
		select {
		case <-done:
		case <-time.After(120 * time.Second):
			out.Case(true, "hang", I(int64(i)))
			out.Close()
			os.RemoveAll(root)
			os.Exit(0)
		}
	}
	out.Case(true, "fds", I(int64(fds0)), I(int64(countFDs())))
	out.Close()
	os.RemoveAll(root)
}
