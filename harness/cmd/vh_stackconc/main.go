// vh_stackconc: C15 under concurrency.  The real StackCounter.Inc (in a copy
// whose internal/counter imports sync and sync/atomic through the yielding
// shims) is called by 2-4 goroutines under the deterministic scheduler
// (critical sections under a mutex are one step).  Goroutines with the same
// stack id call Inc from the SAME call stack (same function, same call site,
// same goroutine entry).  Schedules: random ones, and every schedule with at
// most 2 (thorough: 3) forced context switches of fixed configurations.
//
// Case:  sconc status  nthreads (stackid incs)*  nsteps thread*  ncounters (stackid value name)*  nread (name value)*
package main

import (
	"os"
	"runtime"
	"sort"
	"strconv"
	"strings"
	"time"

	"golang.org/x/telemetry/internal/counter"
	"golang.org/x/telemetry/internal/verifh/shim/vsched"
	. "golang.org/x/telemetry/internal/verifh/vhlib"
)

var rnd *Rand
var out *Out
var sc *counter.StackCounter

//go:noinline
func siteA(k int) {
	for i := 0; i < k; i++ {
		sc.Inc()
	}
}

//go:noinline
func siteB(k int) {
	for i := 0; i < k; i++ {
		sc.Inc()
	}
}

//go:noinline
func siteC(k int) {
	for i := 0; i < k; i++ {
		sc.Inc()
	}
}

type thr struct{ sid, k int }
type plan struct{ at, to []int }

// body: one function literal for all threads, so goroutine entry frames are identical.
func body(t thr) func() {
	return func() {
		switch t.sid {
		case 0:
			siteA(t.k)
		case 1:
			siteB(t.k)
		default:
			siteC(t.k)
		}
	}
}

// scenario under a watchdog: a step of the code under test that never reaches
// its next scheduling point is reported as status "hang".
func scenario(ths []thr, pl *plan) int {
	res := make(chan int, 1)
	go func() { res <- scenario1(ths, pl) }()
	select {
	case n := <-res:
		return n
	case <-time.After(20 * time.Second):
		fields := []string{"sconc", "hang", I(int64(len(ths)))}
		for _, t := range ths {
			fields = append(fields, I(int64(t.sid)), I(int64(t.k)))
		}
		fields = append(fields, I(0), I(0), I(0))
		out.Case(true, fields...)
		out.Close()
		os.Exit(0)
	}
	return 0
}

func scenario1(ths []thr, pl *plan) int {
	vf := counter.VerifNewFile()
	sc = vf.NewStack("st", 8)
	s := vsched.New(true)
	defer vsched.Stop()
	tids := make([]int, len(ths))
	for i := range tids {
		tids[i] = -1
	}
	alive := func(i int) bool { return tids[i] < 0 || !s.Done(tids[i]) }
	blocked := func(i int) bool { return tids[i] >= 0 && !s.Done(tids[i]) && s.Last(tids[i]).Blocked }
	var sched []string
	nsteps, last, budget := 0, -1, 400
	status := "ok"
	for {
		var cand []int
		for i := range ths {
			if alive(i) {
				cand = append(cand, i)
			}
		}
		if len(cand) == 0 {
			break
		}
		if budget == 0 {
			status = "hang"
			break
		}
		budget--
		var i int
		if pl != nil {
			i = cand[0]
			if last >= 0 && alive(last) {
				i = last
			}
			for k, at := range pl.at {
				if at == nsteps && alive(pl.to[k]) {
					i = pl.to[k]
				}
			}
		} else {
			i = cand[rnd.Intn(len(cand))]
			if last >= 0 && rnd.Chance(50) && alive(last) {
				i = last
			}
		}
		// a thread parked before a lock it failed to take: prefer someone else
		if blocked(i) {
			for d := 1; d <= len(ths); d++ {
				j := (i + d) % len(ths)
				if alive(j) && !blocked(j) {
					i = j
					break
				}
			}
		}
		last = i
		var info vsched.Info
		if tids[i] < 0 {
			tids[i] = s.Go(body(ths[i]))
			info = s.Last(tids[i])
		} else {
			info = s.Step(tids[i])
		}
		if info.Panic != "" {
			status = "panic"
			break
		}
		nsteps++
		sched = append(sched, I(int64(i)))
	}
	fields := []string{"sconc", status, I(int64(len(ths)))}
	for _, t := range ths {
		fields = append(fields, I(int64(t.sid)), I(int64(t.k)))
	}
	fields = append(fields, I(int64(len(sched))))
	fields = append(fields, sched...)
	if status == "ok" {
		// after quiescence: the cache as the implementation holds it
		pcs := counter.VerifStackPCs(sc)
		ctrs := sc.Counters()
		fields = append(fields, I(int64(len(ctrs))))
		for ci, c := range ctrs {
			sid := int64(99)
			if len(pcs[ci]) > 0 {
				if fn := runtime.FuncForPC(pcs[ci][0] - 1); fn != nil {
					switch {
					case strings.HasSuffix(fn.Name(), ".siteA"):
						sid = 0
					case strings.HasSuffix(fn.Name(), ".siteB"):
						sid = 1
					case strings.HasSuffix(fn.Name(), ".siteC"):
						sid = 2
					}
				}
			}
			v, _ := counter.Read(c)
			fields = append(fields, I(sid), U(v), HS(counter.DecodeStack(c.Name())))
		}
		m, err := counter.ReadStack(sc)
		if err != nil {
			m = nil
		}
		var names []string
		for n := range m {
			names = append(names, n)
		}
		sort.Strings(names)
		fields = append(fields, I(int64(len(names))))
		for _, n := range names {
			// ReadStack keys are decoded names, as sent for the counters above
			fields = append(fields, HS(n), U(m[n]))
		}
	} else {
		fields = append(fields, I(0), I(0))
	}
	out.Case(len(ths) >= 2, fields...)
	if pl != nil {
		out.Note("systematic")
	} else {
		out.Note("random")
	}
	return nsteps
}

func systematic(k int, ths []thr) {
	max := scenario(ths, &plan{})
	var rec func(depth, from int, pl plan)
	rec = func(depth, from int, pl plan) {
		if depth == 0 {
			return
		}
		for at := from; at <= max+3; at++ {
			for to := range ths {
				p2 := plan{append(append([]int{}, pl.at...), at), append(append([]int{}, pl.to...), to)}
				scenario(ths, &p2)
				rec(depth-1, at+1, p2)
			}
		}
	}
	rec(k, 0, plan{})
}

func main() {
	outPath := os.Args[1]
	n, _ := strconv.Atoi(os.Args[2])
	rnd = NewRand(Seed())
	out = NewOut(outPath)
	k := 2
	if os.Getenv("VERIF_TIER") == "thorough" {
		k = 3
	}
	systematic(k, []thr{{0, 1}, {0, 1}})
	systematic(k, []thr{{0, 1}, {0, 1}, {0, 1}})
	systematic(k, []thr{{0, 2}, {0, 1}})
	systematic(k, []thr{{0, 1}, {1, 1}, {0, 1}})
	for i := 0; i < n; i++ {
		nth := 2 + rnd.Intn(3)
		ths := make([]thr, nth)
		nsid := 1 + rnd.Intn(3)
		for j := range ths {
			ths[j] = thr{rnd.Intn(nsid), 1 + rnd.Intn(3)}
		}
		scenario(ths, nil)
	}
	out.Close()
}
