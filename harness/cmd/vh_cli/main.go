// vh_cli: correspondence harness for C19 (gotelemetry on/local/off/clean/env).
//
// It builds the REAL gotelemetry command from the scratch copy it runs in
// (plain `go build ./cmd/gotelemetry`, no verif tag), and runs it with the
// user configuration directory redirected (XDG_CONFIG_HOME) to a generated
// telemetry directory.  Before and after every command the directory tree is
// snapshotted (names, kinds, bytes); the model runner compares the model's
// tree with the real one and evaluates the property oracle on the real pair.
//
// Case kinds
//
//	step     <cmd> <instant: unix seconds, truncated to the hour> <zone offset s>
//	         <TMPDIR: default | samefs | otherfs | missing | notdir> <TMPDIR contents changed> <before tree> <after tree> <exit> <stdout of cmd>
//	         <telemetry dir> <env stdout after> <lib mode after> <lib date after>
//	nodir    <cmd> <zone offset s> <working dir tree before> <after> <exit> <stdout>
//	         (HOME and XDG_CONFIG_HOME unset: os.UserConfigDir fails, no telemetry directory;
//	         the working directory holds a generated decoy telemetry tree)
//	setmode  <mode> <instant> <zone offset s> <before tree> <after tree> <ok> <lib mode> <lib date>
//	         (in-process SetModeAsOf at a generated date, years 0..9999)
//	readmode <file bytes> <lib mode> <lib date>      (in-process Dir.Mode)
//
// tree := A | T <ents>;  ents := <count> (h<name> node)*;  node := F h<bytes> | D <ents>
package main

import (
	"bytes"
	"fmt"
	"os"
	"os/exec"
	"path/filepath"
	"sort"
	"strconv"
	"strings"
	"sync"
	"syscall"
	"time"

	"golang.org/x/telemetry/internal/telemetry"
	. "golang.org/x/telemetry/internal/verifh/vhlib"
)

var out *Out
var root string
var gotelemetry string
var nCases int

// unit: one generated sequence / in-process case.  Units run on parallel
// workers, each with its own PRNG derived from (VERIF_SEED, unit index);
// their lines and notes are written in unit order, so the cases file is a
// function of the seed only.
type unit struct {
	rnd   *Rand
	lines [][]string
	notes []string
}

func (u *unit) Note(k string)    { u.notes = append(u.notes, k) }
func (u *unit) emit(f ...string) { u.lines = append(u.lines, f) }
func (u *unit) flush() {
	for _, k := range u.notes {
		out.Note(k)
	}
	for _, f := range u.lines {
		out.Case(true, f...)
		nCases++
	}
}

// ---------------------------------------------------------------- trees

type node struct {
	isDir bool
	data  []byte
	ents  map[string]*node
}

func file(b []byte) *node { return &node{data: b} }
func dir() *node          { return &node{isDir: true, ents: map[string]*node{}} }

func (n *node) write(path string) {
	if !n.isDir {
		if bytes.HasPrefix(n.data, []byte(symlinkTag)) {
			if err := os.Symlink(string(n.data[len(symlinkTag):]), path); err != nil {
				panic(err)
			}
			return
		}
		if err := os.WriteFile(path, n.data, 0666); err != nil {
			panic(err)
		}
		return
	}
	if err := os.MkdirAll(path, 0777); err != nil {
		panic(err)
	}
	for name, c := range n.ents {
		c.write(filepath.Join(path, name))
	}
}

const symlinkTag = "\x00symlink\x00"
const dirTag = "<telemetry-dir>"

func snapshot(path string) *node {
	fi, err := os.Lstat(path)
	if err != nil {
		return nil
	}
	if fi.Mode()&os.ModeSymlink != 0 {
		t, _ := os.Readlink(path)
		return file([]byte(symlinkTag + t))
	}
	if !fi.IsDir() {
		b, err := os.ReadFile(path)
		if err != nil {
			panic(err)
		}
		return file(b)
	}
	n := dir()
	es, err := os.ReadDir(path)
	if err != nil {
		panic(err)
	}
	for _, e := range es {
		n.ents[e.Name()] = snapshot(filepath.Join(path, e.Name()))
	}
	return n
}

func encEnts(n *node, f []string) []string {
	names := make([]string, 0, len(n.ents))
	for k := range n.ents {
		names = append(names, k)
	}
	sort.Strings(names)
	f = append(f, I(int64(len(names))))
	for _, k := range names {
		f = append(f, HS(k))
		f = encNode(n.ents[k], f)
	}
	return f
}
func encNode(n *node, f []string) []string {
	if !n.isDir {
		return append(f, "F", H(n.data))
	}
	return encEnts(n, append(f, "D"))
}
func encTree(n *node, f []string) []string {
	if n == nil {
		return append(f, "A")
	}
	if !n.isDir {
		panic("telemetry dir is not a directory")
	}
	return encEnts(n, append(f, "T"))
}

// ------------------------------------------------------------ generators

var localNames = []string{
	"gopls@v0.14.2-go1.21.5-linux-amd64-2024-01-05.v1.count", "x.v1.count", ".v1.count", "a.v2.count",
	"b.v1.count.tmp", ".v1.count.tmp", "v1.count", "c.v1.counts", "cv1.count", "d.V1.COUNT", "e.v1.count ",
	"f.v1count", "g.count", "h.v1.count.v1.count",
	"local.2024-01-05.json", "2024-01-05.json", ".json", "x.json.bak", "json", "x.JSON", "x.jsonl", "y.json~",
	"z..json", "local.json", "xjson", "w.json ",
	"weekends", "upload.token", "x.lock", "y.v1.count.lock", "2024-01-05.json.lock", "README", "x.log", "sidecar.log",
	"mode", "local", "upload",
}

func (u *unit) genName() string {
	if u.rnd.Chance(85) {
		return Pick(u.rnd, localNames)
	}
	// random name, sometimes with a selected suffix
	n := 1 + u.rnd.Intn(6)
	b := make([]byte, n)
	for i := range b {
		b[i] = "abcXYZ019._-~ @"[u.rnd.Intn(15)]
	}
	s := string(b)
	if s == "." || s == ".." {
		s = "dot"
	}
	switch u.rnd.Intn(5) {
	case 0:
		s += ".json"
	case 1:
		s += ".v1.count"
	}
	return s
}

func (u *unit) genData() []byte {
	switch u.rnd.Intn(4) {
	case 0:
		return []byte{}
	case 1:
		return []byte(Pick(u.rnd, []string{"{}", "1\n", "# telemetry counters\n", "{\"Week\":\"2024-01-05\"}"}))
	default:
		return u.rnd.Bytes(1 + u.rnd.Intn(12))
	}
}

// an entry of a data directory: mostly files, also empty and non-empty
// directories (os.Remove fails on the latter) and symlinks
func (u *unit) genEntry(depth int) *node {
	switch r := u.rnd.Intn(100); {
	case r < 70:
		return file(u.genData())
	case r < 80:
		u.Note("entry-empty-dir")
		return dir()
	case r < 94:
		u.Note("entry-nonempty-dir")
		d := dir()
		k := 1 + u.rnd.Intn(3)
		for i := 0; i < k; i++ {
			if depth < 2 && u.rnd.Chance(25) {
				d.ents[u.genName()] = u.genEntry(depth + 1)
			} else {
				d.ents[u.genName()] = file(u.genData())
			}
		}
		return d
	default:
		u.Note("entry-symlink")
		return file([]byte(symlinkTag + Pick(u.rnd, []string{"nowhere", "../mode", "x.json", "/dev/null"})))
	}
}

func (u *unit) genDataDir() *node {
	d := dir()
	k := u.rnd.Intn(9)
	for i := 0; i < k; i++ {
		d.ents[u.genName()] = u.genEntry(0)
	}
	return d
}

var modeContents = []string{
	"on 2024-01-05", "local 2023-11-30", "off 2024-02-29", "on", "off", "local", "on\n", "off 2024-01-05\n",
	"  on 2024-01-05  ", "\ton 2024-01-05", "on  2024-01-05", "on\t2024-01-05", "on 2024-13-45", "off x", "On 2024-01-05",
	"ON", "offx 2024-01-05", "local2024-01-05", "", " ", "\n", "on 2024-01-05 extra", "on 0001-01-01", "on 0000-01-01",
	"off 9999-12-31", "on 2023-02-29", "on ", " off ", "on 2024-01-05", "off  2024-01-05",
	"local 2024-1-5", "lo cal", "onx", "only 2024-01-05", "online", "locally 2024-01-05", "offline", "of", "loca", "\xffon", "on\xc2", "o", "off 2024-01-05T00:00:00Z", "on 2024-01-05\r\n",
}

func (u *unit) genModeFile() []byte {
	switch u.rnd.Intn(10) {
	case 0:
		return u.rnd.Bytes(u.rnd.Intn(8))
	case 1, 2, 3:
		m := Pick(u.rnd, []string{"on", "local", "off"})
		t := time.Date(u.rnd.Intn(10000), time.Month(1+u.rnd.Intn(12)), 1+u.rnd.Intn(28), 0, 0, 0, 0, time.UTC)
		return []byte(m + " " + t.Format("2006-01-02"))
	default:
		return []byte(Pick(u.rnd, modeContents))
	}
}

func (u *unit) genTree() *node {
	if u.rnd.Chance(6) {
		u.Note("tree-absent")
		return nil
	}
	t := dir()
	switch r := u.rnd.Intn(100); {
	case r < 18:
		u.Note("mode-absent")
	case r < 23:
		u.Note("mode-is-dir")
		d := dir()
		if u.rnd.Bool() {
			d.ents["x"] = file(u.genData())
		}
		t.ents["mode"] = d
	default:
		t.ents["mode"] = file(u.genModeFile())
	}
	for _, name := range []string{"local", "upload"} {
		switch r := u.rnd.Intn(100); {
		case r < 8:
			u.Note(name + "-absent")
		case r < 11:
			u.Note(name + "-is-file")
			t.ents[name] = file(u.genData())
		default:
			t.ents[name] = u.genDataDir()
		}
	}
	if u.rnd.Chance(40) {
		u.Note("debug-dir")
		d := dir()
		for i := u.rnd.Intn(4); i > 0; i-- {
			d.ents[u.genName()] = file(u.genData())
		}
		t.ents["debug"] = d
	}
	for i := u.rnd.Intn(4); i > 0; i-- { // foreign entries next to the mode file
		name := u.genName()
		if name == "mode" || name == "local" || name == "upload" || name == "debug" {
			continue
		}
		u.Note("foreign-root-entry")
		t.ents[name] = u.genEntry(1)
	}
	return t
}

// ------------------------------------------------------------- running

func days(t time.Time) int64 {
	s := t.Unix()
	d := s / 86400
	if s%86400 < 0 {
		d--
	}
	return d
}

// zones: the process time zones the command runs in.  TZ names an absolute
// path of a TZif file written by this harness (Go's time package loads it
// directly), so fixed offsets need no system time-zone database.  UTC+14 and
// UTC-12 are always there: at every instant the local date of one of them is
// not the UTC date.
type zone struct {
	off  int    // seconds east of UTC
	path string // "" = TZ=UTC
}

var zones []zone

func tzif(off int) []byte {
	b := []byte("TZif")
	b = append(b, 0)
	b = append(b, make([]byte, 15)...)
	be := func(v uint32) []byte { return []byte{byte(v >> 24), byte(v >> 16), byte(v >> 8), byte(v)} }
	for _, c := range []uint32{0, 0, 0, 0, 1, 4} { // isut, isstd, leap, time, type, char counts
		b = append(b, be(c)...)
	}
	b = append(b, be(uint32(int32(off)))...)
	b = append(b, 0, 0)             // isdst, abbreviation index
	b = append(b, 'V', 'H', 'Z', 0) // abbreviation
	return b
}

func makeZones() {
	dir := filepath.Join(root, "zones")
	os.MkdirAll(dir, 0777)
	zones = []zone{{0, ""}}
	for _, off := range []int{14 * 3600, -12 * 3600, 13*3600 + 45*60, -11 * 3600, 5*3600 + 30*60, -8 * 3600, 3600, -9*3600 - 30*60} {
		data := tzif(off)
		loc, err := time.LoadLocationFromTZData("vh", data)
		if err != nil {
			panic(err)
		}
		if _, o := time.Unix(0, 0).In(loc).Zone(); o != off {
			panic("generated zone has the wrong offset")
		}
		p := filepath.Join(dir, fmt.Sprintf("z%d", len(zones)))
		if err := os.WriteFile(p, data, 0666); err != nil {
			panic(err)
		}
		zones = append(zones, zone{off, p})
	}
}

func (u *unit) genZone() zone {
	switch r := u.rnd.Intn(100); {
	case r < 20:
		return zones[0]
	case r < 45:
		return zones[1] // UTC+14
	case r < 70:
		return zones[2] // UTC-12
	default:
		return zones[3+u.rnd.Intn(len(zones)-3)]
	}
}

// The temporary directory of the process environment (TMPDIR): a command that
// promises to change only the mode file must work, and leave no litter, wherever
// TMPDIR points - in particular on another file system than the configuration
// directory (separate /home, tmpfs /tmp), where a rename from it cannot work.
const (
	tmpDefault = iota // TMPDIR unset
	tmpSameFs         // a fresh directory on the file system of the configuration directory
	tmpOtherFs        // a fresh directory on another file system (/dev/shm), if the machine has one
	tmpMissing        // a path that does not exist
	tmpNotDir         // a regular file
)

var tmpKindNames = []string{"default", "samefs", "otherfs", "missing", "notdir"}
var otherFsRoot string // "" when no second writable file system was found

func deviceOf(path string) (uint64, bool) {
	fi, err := os.Stat(path)
	if err != nil {
		return 0, false
	}
	st, ok := fi.Sys().(*syscall.Stat_t)
	if !ok {
		return 0, false
	}
	return uint64(st.Dev), true
}

func findOtherFs() {
	here, ok := deviceOf(root)
	if !ok {
		return
	}
	for _, cand := range []string{"/dev/shm", "/run/shm", "/run/lock", "/var/tmp", "/run"} {
		if d, ok := deviceOf(cand); ok && d != here {
			if p, err := os.MkdirTemp(cand, "vh_cli"); err == nil {
				otherFsRoot = p
				return
			}
		}
	}
}

// tmpFor prepares the TMPDIR of the given kind below the unit's directory and
// returns its path ("" = leave TMPDIR unset) and the kind actually used.
func (u *unit) tmpFor(cfg string, kind int) (string, int) {
	switch kind {
	case tmpSameFs:
		p := filepath.Join(cfg, "tmp-same")
		os.MkdirAll(p, 0777)
		return p, kind
	case tmpOtherFs:
		if otherFsRoot == "" {
			u.Note("no-second-file-system")
			return u.tmpFor(cfg, tmpSameFs)
		}
		p, err := os.MkdirTemp(otherFsRoot, "t")
		if err != nil {
			return u.tmpFor(cfg, tmpSameFs)
		}
		return p, kind
	case tmpMissing:
		return filepath.Join(cfg, "no-such-tmp"), kind
	case tmpNotDir:
		p := filepath.Join(cfg, "tmp-file")
		os.WriteFile(p, []byte("x"), 0666)
		return p, kind
	}
	return "", tmpDefault
}

func (u *unit) genTmpKind() int {
	switch r := u.rnd.Intn(100); {
	case r < 30:
		return tmpDefault
	case r < 50:
		return tmpSameFs
	case r < 85:
		return tmpOtherFs
	case r < 93:
		return tmpMissing
	default:
		return tmpNotDir
	}
}

func runCmd(cfg string, arg string, z zone, tmpdir string) (stdout []byte, exit int) {
	cmd := exec.Command(gotelemetry, arg)
	tz := "UTC"
	if z.path != "" {
		tz = z.path
	}
	cmd.Env = []string{"XDG_CONFIG_HOME=" + cfg, "HOME=" + filepath.Join(cfg, "home"), "PATH=" + os.Getenv("PATH"), "TZ=" + tz}
	if tmpdir != "" {
		cmd.Env = append(cmd.Env, "TMPDIR="+tmpdir)
	}
	var so bytes.Buffer
	cmd.Stdout = &so
	err := cmd.Run()
	if err != nil {
		if ee, ok := err.(*exec.ExitError); ok {
			return so.Bytes(), ee.ExitCode()
		}
		panic(err)
	}
	return so.Bytes(), 0
}

func libMode(tdir string) (string, string) {
	m, t := telemetry.NewDir(tdir).Mode()
	return m, t.UTC().Format("2006-01-02")
}

func (u *unit) caseSequence() {
	cfg, err := os.MkdirTemp(root, "c")
	if err != nil {
		panic(err)
	}
	defer os.RemoveAll(cfg)
	tdir := filepath.Join(cfg, "go", "telemetry")
	if t := u.genTree(); t != nil {
		t.write(tdir)
	}
	k := 3 + u.rnd.Intn(5)
	for i := 0; i < k; i++ {
		var arg string
		switch r := u.rnd.Intn(100); {
		case r < 22:
			arg = "on"
		case r < 44:
			arg = "local"
		case r < 66:
			arg = "off"
		case r < 90:
			arg = "clean"
		default:
			arg = "env"
		}
		z := u.genZone()
		before := snapshot(tdir)
		d0 := days(time.Now())
		tmpdir, tmpKind := u.tmpFor(cfg, u.genTmpKind())
		var tmpBefore *node
		if tmpKind == tmpSameFs || tmpKind == tmpOtherFs {
			tmpBefore = snapshot(tmpdir)
		}
		stdout, exit := runCmd(cfg, arg, z, tmpdir)
		t1 := time.Now()
		d1 := days(t1)
		after := snapshot(tdir)
		tmpChanged := false
		if tmpBefore != nil {
			var a, b []string
			a, b = encTree(tmpBefore, a), encTree(snapshot(tmpdir), b)
			tmpChanged = strings.Join(a, " ") != strings.Join(b, " ")
		}
		if tmpKind == tmpOtherFs {
			os.RemoveAll(tmpdir)
		}
		envOut, _ := runCmd(cfg, "env", u.genZone(), "")
		lm, ld := libMode(tdir)
		if d0 != d1 {
			continue // the UTC date changed while the command ran: "today" is ambiguous
		}
		if ls := t1.Unix() + int64(z.off); (ls-ls%86400)/86400 != d1 {
			u.Note("local-date-differs-from-utc-date")
		}
		u.Note(fmt.Sprintf("zone%+d", z.off))
		u.Note("tmpdir-" + tmpKindNames[tmpKind])
		f := []string{"step", arg, I(t1.Unix() - t1.Unix()%3600), I(int64(z.off)), tmpKindNames[tmpKind], B(tmpChanged)}
		f = encTree(before, f)
		f = encTree(after, f)
		// the temporary directory's name is not part of the case: replace it
		stdout = bytes.ReplaceAll(stdout, []byte(tdir), []byte(dirTag))
		envOut = bytes.ReplaceAll(envOut, []byte(tdir), []byte(dirTag))
		f = append(f, I(int64(exit)), H(stdout), HS(dirTag), H(envOut), HS(lm), HS(ld))
		u.Note("cmd-" + arg)
		if exit != 0 {
			u.Note("cmd-failed")
		}
		u.emit(f...)
	}
}

// no user configuration directory: the command must not touch anything; the
// working directory holds a decoy tree (mode file, local/, upload/ with
// matching names) that a relative-path fallback would read, rewrite or clean
func (u *unit) caseNoDir() {
	cwd, err := os.MkdirTemp(root, "n")
	if err != nil {
		panic(err)
	}
	defer os.RemoveAll(cwd)
	if t := u.genTree(); t != nil {
		t.write(cwd)
	}
	k := 2 + u.rnd.Intn(3)
	for i := 0; i < k; i++ {
		arg := Pick(u.rnd, []string{"on", "local", "off", "clean", "clean", "env"})
		z := u.genZone()
		before := snapshot(cwd)
		cmd := exec.Command(gotelemetry, arg)
		tz := "UTC"
		if z.path != "" {
			tz = z.path
		}
		cmd.Env = []string{"PATH=" + os.Getenv("PATH"), "TZ=" + tz}
		cmd.Dir = cwd
		var so bytes.Buffer
		cmd.Stdout = &so
		exit := 0
		if err := cmd.Run(); err != nil {
			ee, ok := err.(*exec.ExitError)
			if !ok {
				panic(err)
			}
			exit = ee.ExitCode()
		}
		after := snapshot(cwd)
		f := []string{"nodir", arg, I(int64(z.off))}
		f = encTree(before, f)
		f = encTree(after, f)
		f = append(f, I(int64(exit)), H(so.Bytes()))
		u.Note("nodir-cmd-" + arg)
		u.emit(f...)
	}
}

// in-process: the library's SetModeAsOf at a generated date, then Mode()
func (u *unit) caseSetMode() {
	cfg, err := os.MkdirTemp(root, "s")
	if err != nil {
		panic(err)
	}
	defer os.RemoveAll(cfg)
	tdir := filepath.Join(cfg, "go", "telemetry")
	if t := u.genTree(); t != nil {
		t.write(tdir)
	}
	mode := Pick(u.rnd, []string{"on", "local", "off"})
	var t time.Time
	switch u.rnd.Intn(4) {
	case 0:
		t = time.Date(Pick(u.rnd, []int{0, 1, 9999, 1970, 2000, 2024, 2100}), time.Month(Pick(u.rnd, []int{1, 2, 2, 3, 12})),
			Pick(u.rnd, []int{1, 28, 29, 31}), u.rnd.Intn(24), u.rnd.Intn(60), u.rnd.Intn(60), 0, time.UTC)
		if t.Year() > 9999 {
			t = time.Date(9999, 12, 31, 23, 59, 59, 0, time.UTC)
		}
	default:
		t = time.Date(u.rnd.Intn(10000), time.Month(1+u.rnd.Intn(12)), 1+u.rnd.Intn(28), u.rnd.Intn(24), u.rnd.Intn(60), u.rnd.Intn(60), 0, time.UTC)
	}
	// the same instant expressed in another zone, often near midnight so that
	// the zone's calendar date is not the UTC date
	if u.rnd.Chance(50) {
		t = time.Date(t.Year(), t.Month(), t.Day(), Pick(u.rnd, []int{0, 1, 9, 10, 11, 12, 13, 22, 23}), u.rnd.Intn(60), u.rnd.Intn(60), 0, time.UTC)
	}
	off := 0
	if u.rnd.Chance(85) {
		off = Pick(u.rnd, []int{14 * 3600, -12 * 3600, 13*3600 + 45*60, -11 * 3600, 5*3600 + 30*60, -8 * 3600, 3600, -9*3600 - 30*60, 1, -1})
		t = t.In(time.FixedZone("vh", off))
	}
	if y, m, d := t.Date(); func() bool { uy, um, ud := t.UTC().Date(); return y != uy || m != um || d != ud }() {
		u.Note("setmode-local-date-differs-from-utc-date")
	}
	before := snapshot(tdir)
	err = telemetry.NewDir(tdir).SetModeAsOf(mode, t)
	after := snapshot(tdir)
	lm, ld := libMode(tdir)
	f := []string{"setmode", HS(mode), I(t.Unix()), I(int64(off))}
	f = encTree(before, f)
	f = encTree(after, f)
	f = append(f, B(err == nil), HS(lm), HS(ld))
	u.emit(f...)
}

func (u *unit) caseReadMode() {
	cfg, err := os.MkdirTemp(root, "r")
	if err != nil {
		panic(err)
	}
	defer os.RemoveAll(cfg)
	data := u.genModeFile()
	if err := os.WriteFile(filepath.Join(cfg, "mode"), data, 0666); err != nil {
		panic(err)
	}
	lm, ld := libMode(cfg)
	u.emit("readmode", H(data), HS(lm), HS(ld))
}

func main() {
	outPath := os.Args[1]
	n, _ := strconv.Atoi(os.Args[2])
	out = NewOut(outPath)
	var err error
	root, err = os.MkdirTemp("", "vh_cli")
	if err != nil {
		panic(err)
	}
	defer os.RemoveAll(root)

	// the real command, built from the tree this harness was built from (cwd)
	gotelemetry = filepath.Join(root, "gotelemetry")
	build := exec.Command("go", "build", "-o", gotelemetry, "./cmd/gotelemetry")
	if b, err := build.CombinedOutput(); err != nil {
		fmt.Fprintf(os.Stderr, "cannot build cmd/gotelemetry: %v\n%s", err, b)
		os.RemoveAll(root)
		os.Exit(2)
	}

	const workers = 6
	seed := Seed()
	makeZones()
	findOtherFs()
	if otherFsRoot != "" {
		defer os.RemoveAll(otherFsRoot)
	}
	for base := 0; nCases < n; base += workers {
		us := make([]*unit, workers)
		var wg sync.WaitGroup
		for w := 0; w < workers; w++ {
			i := base + w
			u := &unit{rnd: NewRand(seed*1000003 + uint64(i))}
			us[w] = u
			wg.Add(1)
			go func() {
				defer wg.Done()
				switch {
				case i%20 == 13:
					u.caseNoDir()
				case i%10 < 7:
					u.caseSequence()
				case i%10 < 9:
					u.caseSetMode()
				default:
					u.caseReadMode()
				}
			}()
		}
		wg.Wait()
		for _, u := range us {
			u.flush()
		}
	}
	out.Close()
}
