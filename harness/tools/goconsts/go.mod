module verif/goconsts

go 1.23
