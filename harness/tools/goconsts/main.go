// goconsts: translator from Go source constants to Gallina definitions.
//
// usage: goconsts <repo root> <spec file> <out Consts.v> [<out table.json>]
//
// Spec lines:  <coq name> <pkg dir rel. to repo> <scope> <go name> <kind>
//
//	scope: "-" for package level, otherwise the enclosing function name
//	       (for methods: Recv.Method)
//	kind:  N | Z | bytes | durns (time.Duration in ns, as Z) | len (len of a string const, as N)
//
// Package-level names may be constants or variables with a constant
// initialiser.  Values are computed by go/types + go/constant from the
// current working tree; nothing is hard coded here.
package main

import (
	"bufio"
	"encoding/json"
	"fmt"
	"go/ast"
	"go/constant"
	"go/importer"
	"go/parser"
	"go/token"
	"go/types"
	"os"
	"path/filepath"
	"sort"
	"strings"
)

type spec struct{ coq, dir, scope, name, kind string }

type lenientImporter struct {
	src  types.Importer
	fake map[string]*types.Package
}

func (li *lenientImporter) Import(path string) (*types.Package, error) {
	if p, err := li.src.Import(path); err == nil {
		return p, nil
	}
	if p, ok := li.fake[path]; ok {
		return p, nil
	}
	p := types.NewPackage(path, filepath.Base(path))
	p.MarkComplete()
	li.fake[path] = p
	return p, nil
}

type pkgInfo struct {
	pkg   *types.Package
	info  *types.Info
	files []*ast.File
	fset  *token.FileSet
}

func load(root, dir string, imp types.Importer) (*pkgInfo, error) {
	fset := token.NewFileSet()
	full := filepath.Join(root, dir)
	ents, err := os.ReadDir(full)
	if err != nil {
		return nil, err
	}
	var files []*ast.File
	for _, e := range ents {
		n := e.Name()
		if !strings.HasSuffix(n, ".go") || strings.HasSuffix(n, "_test.go") {
			continue
		}
		if strings.HasSuffix(n, "_windows.go") || strings.HasSuffix(n, "_other.go") || strings.HasPrefix(n, "zz_verif") {
			continue
		}
		f, err := parser.ParseFile(fset, filepath.Join(full, n), nil, parser.SkipObjectResolution)
		if err != nil {
			return nil, err
		}
		if f.Name.Name == "main" && dir != "." && !strings.Contains(dir, "cmd/") && !strings.HasSuffix(dir, "configgen") {
			continue
		}
		files = append(files, f)
	}
	info := &types.Info{
		Types: map[ast.Expr]types.TypeAndValue{},
		Defs:  map[*ast.Ident]types.Object{},
	}
	conf := types.Config{Importer: imp, Error: func(error) {}, FakeImportC: true}
	pkg, _ := conf.Check(dir, fset, files, info)
	return &pkgInfo{pkg, info, files, fset}, nil
}

func funcName(fd *ast.FuncDecl) string {
	if fd.Recv != nil && len(fd.Recv.List) == 1 {
		t := fd.Recv.List[0].Type
		if s, ok := t.(*ast.StarExpr); ok {
			t = s.X
		}
		if ix, ok := t.(*ast.IndexExpr); ok {
			t = ix.X
		}
		if id, ok := t.(*ast.Ident); ok {
			return id.Name + "." + fd.Name.Name
		}
	}
	return fd.Name.Name
}

func (p *pkgInfo) lookup(scope, name string) (constant.Value, error) {
	if scope == "-" {
		obj := p.pkg.Scope().Lookup(name)
		if c, ok := obj.(*types.Const); ok {
			return c.Val(), nil
		}
		// variable with constant initialiser
		for _, f := range p.files {
			for _, d := range f.Decls {
				gd, ok := d.(*ast.GenDecl)
				if !ok || gd.Tok != token.VAR {
					continue
				}
				for _, s := range gd.Specs {
					vs := s.(*ast.ValueSpec)
					for i, id := range vs.Names {
						if id.Name == name && i < len(vs.Values) {
							if tv, ok := p.info.Types[vs.Values[i]]; ok && tv.Value != nil {
								return tv.Value, nil
							}
							return nil, fmt.Errorf("%s: initialiser is not constant", name)
						}
					}
				}
			}
		}
		return nil, fmt.Errorf("%s: not found at package level", name)
	}
	for _, f := range p.files {
		for _, d := range f.Decls {
			fd, ok := d.(*ast.FuncDecl)
			if !ok || fd.Body == nil || funcName(fd) != scope {
				continue
			}
			var val constant.Value
			ast.Inspect(fd.Body, func(n ast.Node) bool {
				if id, ok := n.(*ast.Ident); ok && id.Name == name {
					if c, ok := p.info.Defs[id].(*types.Const); ok {
						val = c.Val()
					}
				}
				return true
			})
			if val != nil {
				return val, nil
			}
			break
		}
	}
	// The constant is not (any more) in the named function: a refactoring may
	// have moved it into a helper.  Accept a function-local constant of that
	// name from anywhere in the package when all its occurrences agree.
	var found constant.Value
	conflict := false
	for _, f := range p.files {
		for _, d := range f.Decls {
			fd, ok := d.(*ast.FuncDecl)
			if !ok || fd.Body == nil {
				continue
			}
			ast.Inspect(fd.Body, func(n ast.Node) bool {
				if id, ok := n.(*ast.Ident); ok && id.Name == name {
					if c, ok := p.info.Defs[id].(*types.Const); ok {
						if found != nil && !constant.Compare(found, token.EQL, c.Val()) {
							conflict = true
						}
						found = c.Val()
					}
				}
				return true
			})
		}
	}
	if found != nil && !conflict {
		return found, nil
	}
	return nil, fmt.Errorf("%s: no constant in function %s (nor a unique one elsewhere in the package)", name, scope)
}

func coqBytes(s string) string {
	var b strings.Builder
	b.WriteString("[")
	for i := 0; i < len(s); i++ {
		if i > 0 {
			b.WriteString("; ")
		}
		fmt.Fprintf(&b, "%d", s[i])
	}
	b.WriteString("]%N")
	return b.String()
}

func main() {
	if len(os.Args) < 4 {
		fmt.Fprintln(os.Stderr, "usage: goconsts <repo> <spec> <out.v> [<table.json>]")
		os.Exit(2)
	}
	root, specFile, out := os.Args[1], os.Args[2], os.Args[3]
	sf, err := os.Open(specFile)
	if err != nil {
		fmt.Fprintln(os.Stderr, err)
		os.Exit(2)
	}
	var specs []spec
	sc := bufio.NewScanner(sf)
	for sc.Scan() {
		line := strings.TrimSpace(sc.Text())
		if line == "" || strings.HasPrefix(line, "#") {
			continue
		}
		f := strings.Fields(line)
		if len(f) != 5 {
			fmt.Fprintf(os.Stderr, "bad spec line: %q\n", line)
			os.Exit(2)
		}
		specs = append(specs, spec{f[0], f[1], f[2], f[3], f[4]})
	}
	os.Chdir(root)
	imp := &lenientImporter{src: importer.ForCompiler(token.NewFileSet(), "source", nil), fake: map[string]*types.Package{}}
	pkgs := map[string]*pkgInfo{}
	var b strings.Builder
	b.WriteString("(* GENERATED by harness/tools/goconsts from the Go sources of the working tree. Do not edit. *)\n")
	b.WriteString("From Coq Require Import List NArith ZArith.\nImport ListNotations.\n\n")
	table := map[string]string{}
	failed := false
	for _, s := range specs {
		p, ok := pkgs[s.dir]
		if !ok {
			p, err = load(root, s.dir, imp)
			if err != nil {
				fmt.Fprintf(os.Stderr, "load %s: %v\n", s.dir, err)
				os.Exit(1)
			}
			pkgs[s.dir] = p
		}
		v, err := p.lookup(s.scope, s.name)
		if err != nil {
			fmt.Fprintf(os.Stderr, "goconsts: %s (%s %s): %v\n", s.coq, s.dir, s.name, err)
			failed = true
			continue
		}
		var def string
		switch s.kind {
		case "N", "Z", "durns":
			iv := constant.ToInt(v)
			if iv.Kind() != constant.Int {
				fmt.Fprintf(os.Stderr, "goconsts: %s: not an integer constant: %v\n", s.coq, v)
				failed = true
				continue
			}
			str := iv.ExactString()
			if s.kind == "N" {
				def = fmt.Sprintf("Definition %s : N := %s%%N.", s.coq, str)
			} else {
				def = fmt.Sprintf("Definition %s : Z := (%s)%%Z.", s.coq, str)
			}
			table[s.coq] = str
		case "bytes":
			if v.Kind() != constant.String {
				fmt.Fprintf(os.Stderr, "goconsts: %s: not a string constant\n", s.coq)
				failed = true
				continue
			}
			str := constant.StringVal(v)
			def = fmt.Sprintf("Definition %s : list N := %s.", s.coq, coqBytes(str))
			table[s.coq] = fmt.Sprintf("%q", str)
		case "len":
			str := constant.StringVal(v)
			def = fmt.Sprintf("Definition %s : N := %d%%N.", s.coq, len(str))
			table[s.coq] = fmt.Sprint(len(str))
		default:
			fmt.Fprintf(os.Stderr, "bad kind %s\n", s.kind)
			os.Exit(2)
		}
		fmt.Fprintf(&b, "(* %s: %s %s *)\n%s\n", s.dir, s.scope, s.name, def)
	}
	if failed {
		os.Exit(1)
	}
	if old, err := os.ReadFile(out); err != nil || string(old) != b.String() {
		if err := os.WriteFile(out, []byte(b.String()), 0644); err != nil {
			fmt.Fprintln(os.Stderr, err)
			os.Exit(1)
		}
	}
	if len(os.Args) > 4 {
		keys := make([]string, 0, len(table))
		for k := range table {
			keys = append(keys, k)
		}
		sort.Strings(keys)
		js, _ := json.MarshalIndent(table, "", " ")
		os.WriteFile(os.Args[4], js, 0644)
	}
}
