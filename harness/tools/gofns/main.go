// gofns: translator from a subset of Go (pure integer functions) to Gallina.
//
// usage: gofns <repo root> <spec file> <out GoFns.v>
//
// Spec lines:  <pkg dir> <function>          function = Name | Recv.Method | Name[T] (generic instance)
//
// The translation is semantic, not textual: every integer expression is typed
// by go/types and rendered over Z with the wrap-around of its Go type written
// explicitly (wrapu w = mod 2^w, wraps w = two's complement), constants are
// evaluated by go/constant, shifts/masks become Z.shiftl/Z.land/..., a loop
//   for i := 0; i < len(s); i++ { ... s[i] ... }
// over a string becomes a fold_left over its bytes, value-receiver methods
// take the receiver as first argument, fields read through a pointer receiver
// become extra arguments <recv>_<field>.  Anything outside the subset makes
// the translator fail (exit 1) rather than guess.
package main

import (
	"bufio"
	"fmt"
	"go/ast"
	"go/constant"
	"go/importer"
	"go/parser"
	"go/token"
	"go/types"
	"os"
	"path/filepath"
	"sort"
	"strings"
)

type lenient struct {
	src  types.Importer
	fake map[string]*types.Package
}

func (li *lenient) Import(path string) (*types.Package, error) {
	if p, err := li.src.Import(path); err == nil {
		return p, nil
	}
	if p, ok := li.fake[path]; ok {
		return p, nil
	}
	p := types.NewPackage(path, filepath.Base(path))
	p.MarkComplete()
	li.fake[path] = p
	return p, nil
}

type pkgInfo struct {
	pkg   *types.Package
	info  *types.Info
	files []*ast.File
	fset  *token.FileSet
	funcs map[string]*ast.FuncDecl
}

func load(root, dir string, imp types.Importer) (*pkgInfo, error) {
	fset := token.NewFileSet()
	full := filepath.Join(root, dir)
	ents, err := os.ReadDir(full)
	if err != nil {
		return nil, err
	}
	var files []*ast.File
	for _, e := range ents {
		n := e.Name()
		if !strings.HasSuffix(n, ".go") || strings.HasSuffix(n, "_test.go") || strings.HasSuffix(n, "_windows.go") ||
			strings.HasSuffix(n, "_other.go") || strings.HasPrefix(n, "zz_verif") {
			continue
		}
		f, err := parser.ParseFile(fset, filepath.Join(full, n), nil, parser.SkipObjectResolution)
		if err != nil {
			return nil, err
		}
		files = append(files, f)
	}
	info := &types.Info{
		Types:     map[ast.Expr]types.TypeAndValue{},
		Defs:      map[*ast.Ident]types.Object{},
		Uses:      map[*ast.Ident]types.Object{},
		Instances: map[*ast.Ident]types.Instance{},
	}
	conf := types.Config{Importer: imp, Error: func(error) {}, FakeImportC: true}
	pkg, _ := conf.Check(dir, fset, files, info)
	p := &pkgInfo{pkg, info, files, fset, map[string]*ast.FuncDecl{}}
	for _, f := range files {
		for _, d := range f.Decls {
			if fd, ok := d.(*ast.FuncDecl); ok && fd.Body != nil {
				p.funcs[funcName(fd)] = fd
			}
		}
	}
	return p, nil
}

func funcName(fd *ast.FuncDecl) string {
	if fd.Recv != nil && len(fd.Recv.List) == 1 {
		t := fd.Recv.List[0].Type
		if s, ok := t.(*ast.StarExpr); ok {
			t = s.X
		}
		if id, ok := t.(*ast.Ident); ok {
			return id.Name + "." + fd.Name.Name
		}
	}
	return fd.Name.Name
}

// ---- integer kinds ----

type ikind struct {
	width  int
	signed bool
}

func kindOf(t types.Type) (ikind, bool) {
	b, ok := t.Underlying().(*types.Basic)
	if !ok {
		return ikind{}, false
	}
	switch b.Kind() {
	case types.Uint8:
		return ikind{8, false}, true
	case types.Uint16:
		return ikind{16, false}, true
	case types.Uint32:
		return ikind{32, false}, true
	case types.Uint64, types.Uint, types.Uintptr:
		return ikind{64, false}, true
	case types.Int8:
		return ikind{8, true}, true
	case types.Int16:
		return ikind{16, true}, true
	case types.Int32:
		return ikind{32, true}, true
	case types.Int64, types.Int:
		return ikind{64, true}, true
	case types.UntypedInt, types.UntypedRune:
		return ikind{0, true}, true // unbounded constant
	}
	return ikind{}, false
}

func (k ikind) wrap(e string) string {
	if k.width == 0 {
		return e
	}
	if k.signed {
		return fmt.Sprintf("(wraps %d %s)", k.width, e)
	}
	return fmt.Sprintf("(wrapu %d %s)", k.width, e)
}

type fail struct{ msg string }

func die(pos token.Pos, p *pkgInfo, format string, args ...any) {
	panic(fail{p.fset.Position(pos).String() + ": " + fmt.Sprintf(format, args...)})
}

// ---- translation ----

type tr struct {
	p        *pkgInfo
	recv     string            // receiver name when it is a pointer to a struct
	fields   map[string]bool   // receiver fields read
	subst    map[*types.TypeParam]types.Type
	needs    map[string]bool   // functions referenced (to be emitted too)
	instName string
}

func (t *tr) typeOf(e ast.Expr) types.Type {
	ty := t.p.info.TypeOf(e)
	if ty == nil {
		die(e.Pos(), t.p, "no type for expression")
	}
	if tp, ok := ty.(*types.TypeParam); ok {
		if s, ok := t.subst[tp]; ok {
			return s
		}
	}
	return ty
}

func zlit(v constant.Value) string {
	s := constant.ToInt(v).ExactString()
	if strings.HasPrefix(s, "-") {
		return "(" + s + ")"
	}
	return s
}

func coqIdent(s string) string {
	s = strings.ReplaceAll(s, ".", "_")
	s = strings.ReplaceAll(s, "[", "_")
	s = strings.ReplaceAll(s, "]", "")
	return "go_" + s
}

func (t *tr) expr(e ast.Expr) string {
	if tv, ok := t.p.info.Types[e]; ok && tv.Value != nil {
		switch tv.Value.Kind() {
		case constant.Int:
			return zlit(tv.Value)
		case constant.Bool:
			if constant.BoolVal(tv.Value) {
				return "true"
			}
			return "false"
		}
	}
	switch e := e.(type) {
	case *ast.ParenExpr:
		return t.expr(e.X)
	case *ast.Ident:
		if e.Name == "true" || e.Name == "false" {
			return e.Name
		}
		return "v_" + e.Name
	case *ast.SelectorExpr:
		if id, ok := e.X.(*ast.Ident); ok && id.Name == t.recv {
			t.fields[e.Sel.Name] = true
			return "v_" + t.recv + "_" + e.Sel.Name
		}
		die(e.Pos(), t.p, "unsupported selector")
	case *ast.UnaryExpr:
		x := t.expr(e.X)
		switch e.Op {
		case token.NOT:
			return "(negb " + x + ")"
		case token.SUB:
			k, ok := kindOf(t.typeOf(e))
			if !ok {
				die(e.Pos(), t.p, "unary minus on non-integer")
			}
			return k.wrap("(- " + x + ")")
		case token.XOR:
			k, ok := kindOf(t.typeOf(e))
			if !ok || k.width == 0 || k.signed {
				die(e.Pos(), t.p, "complement of this type is not supported")
			}
			return fmt.Sprintf("(2 ^ %d - 1 - %s)", k.width, x)
		}
		die(e.Pos(), t.p, "unsupported unary operator %s", e.Op)
	case *ast.BinaryExpr:
		x, y := t.expr(e.X), t.expr(e.Y)
		switch e.Op {
		case token.LAND:
			return "(" + x + " && " + y + ")"
		case token.LOR:
			return "(" + x + " || " + y + ")"
		case token.EQL, token.NEQ, token.LSS, token.LEQ, token.GTR, token.GEQ:
			if _, ok := kindOf(t.typeOf(e.X)); !ok {
				die(e.Pos(), t.p, "comparison of non-integers")
			}
			switch e.Op {
			case token.EQL:
				return "(" + x + " =? " + y + ")"
			case token.NEQ:
				return "(negb (" + x + " =? " + y + "))"
			case token.LSS:
				return "(" + x + " <? " + y + ")"
			case token.LEQ:
				return "(" + x + " <=? " + y + ")"
			case token.GTR:
				return "(" + y + " <? " + x + ")"
			default:
				return "(" + y + " <=? " + x + ")"
			}
		}
		k, ok := kindOf(t.typeOf(e))
		if !ok {
			die(e.Pos(), t.p, "arithmetic on non-integer type %s", t.typeOf(e))
		}
		switch e.Op {
		case token.ADD:
			return k.wrap("(" + x + " + " + y + ")")
		case token.SUB:
			return k.wrap("(" + x + " - " + y + ")")
		case token.MUL:
			return k.wrap("(" + x + " * " + y + ")")
		case token.QUO:
			if k.signed {
				return k.wrap("(Z.quot " + x + " " + y + ")")
			}
			return "(" + x + " / " + y + ")"
		case token.REM:
			if k.signed {
				return "(Z.rem " + x + " " + y + ")"
			}
			return "(" + x + " mod " + y + ")"
		case token.AND:
			return "(Z.land " + x + " " + y + ")"
		case token.OR:
			return "(Z.lor " + x + " " + y + ")"
		case token.XOR:
			return "(Z.lxor " + x + " " + y + ")"
		case token.AND_NOT:
			return "(Z.ldiff " + x + " " + y + ")"
		case token.SHL:
			return k.wrap("(Z.shiftl " + x + " " + y + ")")
		case token.SHR:
			if k.signed {
				die(e.Pos(), t.p, "arithmetic shift right of a signed value is not supported")
			}
			return "(Z.shiftr " + x + " " + y + ")"
		}
		die(e.Pos(), t.p, "unsupported binary operator %s", e.Op)
	case *ast.IndexExpr:
		// generic instantiation f[T](...) handled in CallExpr; s[i] only inside the loop pattern
		die(e.Pos(), t.p, "index expression outside the supported loop pattern")
	case *ast.CallExpr:
		// conversion?
		if tv, ok := t.p.info.Types[e.Fun]; ok && tv.IsType() {
			k, ok := kindOf(t.typeOf(e))
			if !ok {
				die(e.Pos(), t.p, "conversion to non-integer type")
			}
			return k.wrap(t.expr(e.Args[0]))
		}
		switch f := e.Fun.(type) {
		case *ast.Ident:
			if f.Name == "len" {
				return "(Z.of_nat (length " + t.expr(e.Args[0]) + "))"
			}
			name := f.Name
			if inst, ok := t.p.info.Instances[f]; ok && inst.TypeArgs.Len() == 1 {
				ta := inst.TypeArgs.At(0)
				if tp, ok := ta.(*types.TypeParam); ok {
					ta = t.subst[tp]
				}
				name = fmt.Sprintf("%s[%s]", f.Name, ta.String())
			}
			t.needs[name] = true
			var args []string
			for _, a := range e.Args {
				args = append(args, t.expr(a))
			}
			return "(" + coqIdent(name) + " " + strings.Join(args, " ") + ")"
		case *ast.SelectorExpr:
			// method call on a value receiver
			recvT := t.typeOf(f.X)
			named, ok := recvT.(*types.Named)
			if !ok {
				die(e.Pos(), t.p, "method call on unsupported receiver")
			}
			name := named.Obj().Name() + "." + f.Sel.Name
			t.needs[name] = true
			args := []string{t.expr(f.X)}
			for _, a := range e.Args {
				args = append(args, t.expr(a))
			}
			return "(" + coqIdent(name) + " " + strings.Join(args, " ") + ")"
		}
		die(e.Pos(), t.p, "unsupported call")
	}
	die(e.Pos(), t.p, "unsupported expression %T", e)
	return ""
}

// assigned collects the local variables assigned (not declared) in stmts.
func assigned(stmts []ast.Stmt, out map[string]bool) {
	for _, s := range stmts {
		switch s := s.(type) {
		case *ast.AssignStmt:
			if s.Tok != token.DEFINE {
				for _, l := range s.Lhs {
					if id, ok := l.(*ast.Ident); ok {
						out[id.Name] = true
					}
				}
			}
		case *ast.IncDecStmt:
			if id, ok := s.X.(*ast.Ident); ok {
				out[id.Name] = true
			}
		case *ast.IfStmt:
			assigned(s.Body.List, out)
			if s.Else != nil {
				if b, ok := s.Else.(*ast.BlockStmt); ok {
					assigned(b.List, out)
				} else {
					assigned([]ast.Stmt{s.Else}, out)
				}
			}
		case *ast.BlockStmt:
			assigned(s.List, out)
		}
	}
}

func tuple(vars []string) string {
	if len(vars) == 1 {
		return "v_" + vars[0]
	}
	var vs []string
	for _, v := range vars {
		vs = append(vs, "v_"+v)
	}
	return "(" + strings.Join(vs, ", ") + ")"
}

func pat(vars []string) string {
	if len(vars) == 1 {
		return "v_" + vars[0]
	}
	return "'" + tuple(vars)
}

func returns(stmts []ast.Stmt) bool {
	if len(stmts) == 0 {
		return false
	}
	switch s := stmts[len(stmts)-1].(type) {
	case *ast.ReturnStmt:
		return true
	case *ast.IfStmt:
		if s.Else == nil {
			return false
		}
		eb, ok := s.Else.(*ast.BlockStmt)
		if !ok {
			return returns(s.Body.List) && returns([]ast.Stmt{s.Else})
		}
		return returns(s.Body.List) && returns(eb.List)
	}
	return false
}

// stmts translates a statement list; tail is the term to continue with when
// the list falls through ("" = must return).
func (t *tr) stmts(list []ast.Stmt, tail string) string {
	if len(list) == 0 {
		if tail == "" {
			panic(fail{"function body falls off the end"})
		}
		return tail
	}
	s, rest := list[0], list[1:]
	switch s := s.(type) {
	case *ast.ReturnStmt:
		var rs []string
		for _, r := range s.Results {
			rs = append(rs, t.expr(r))
		}
		if len(rs) == 1 {
			return rs[0]
		}
		return "(" + strings.Join(rs, ", ") + ")"
	case *ast.DeclStmt:
		gd := s.Decl.(*ast.GenDecl)
		if gd.Tok == token.CONST {
			return t.stmts(rest, tail) // constants are inlined by value
		}
		if gd.Tok == token.VAR {
			out := ""
			for _, sp := range gd.Specs {
				vs := sp.(*ast.ValueSpec)
				for i, n := range vs.Names {
					val := "0"
					if i < len(vs.Values) {
						val = t.expr(vs.Values[i])
					}
					out += fmt.Sprintf("let v_%s := %s in\n  ", n.Name, val)
				}
			}
			return out + t.stmts(rest, tail)
		}
	case *ast.AssignStmt:
		if len(s.Lhs) == 1 && len(s.Rhs) == 1 {
			id, ok := s.Lhs[0].(*ast.Ident)
			if !ok {
				die(s.Pos(), t.p, "assignment to non-variable")
			}
			rhs := t.expr(s.Rhs[0])
			switch s.Tok {
			case token.DEFINE, token.ASSIGN:
			default:
				// x op= e
				op := map[token.Token]token.Token{token.ADD_ASSIGN: token.ADD, token.SUB_ASSIGN: token.SUB, token.MUL_ASSIGN: token.MUL,
					token.OR_ASSIGN: token.OR, token.AND_ASSIGN: token.AND, token.XOR_ASSIGN: token.XOR, token.SHL_ASSIGN: token.SHL,
					token.SHR_ASSIGN: token.SHR, token.AND_NOT_ASSIGN: token.AND_NOT}[s.Tok]
				be := &ast.BinaryExpr{X: s.Lhs[0], Op: op, Y: s.Rhs[0], OpPos: s.Pos()}
				t.p.info.Types[be] = types.TypeAndValue{Type: t.typeOf(s.Lhs[0])}
				rhs = t.expr(be)
			}
			return fmt.Sprintf("let v_%s := %s in\n  %s", id.Name, rhs, t.stmts(rest, tail))
		}
		if len(s.Lhs) == len(s.Rhs) {
			out := ""
			var tmp []string
			for i := range s.Lhs {
				tmp = append(tmp, fmt.Sprintf("tmp%d_", i))
				out += fmt.Sprintf("let tmp%d_ := %s in\n  ", i, t.expr(s.Rhs[i]))
			}
			for i, l := range s.Lhs {
				id, ok := l.(*ast.Ident)
				if !ok {
					die(s.Pos(), t.p, "assignment to non-variable")
				}
				out += fmt.Sprintf("let v_%s := %s in\n  ", id.Name, tmp[i])
			}
			return out + t.stmts(rest, tail)
		}
		die(s.Pos(), t.p, "unsupported assignment")
	case *ast.IncDecStmt:
		id, ok := s.X.(*ast.Ident)
		if !ok {
			die(s.Pos(), t.p, "inc/dec of non-variable")
		}
		k, _ := kindOf(t.typeOf(s.X))
		op := "+"
		if s.Tok == token.DEC {
			op = "-"
		}
		return fmt.Sprintf("let v_%s := %s in\n  %s", id.Name, k.wrap("(v_"+id.Name+" "+op+" 1)"), t.stmts(rest, tail))
	case *ast.IfStmt:
		if s.Init != nil {
			die(s.Pos(), t.p, "if with init statement")
		}
		cond := t.expr(s.Cond)
		var elseList []ast.Stmt
		hasElse := s.Else != nil
		if hasElse {
			if b, ok := s.Else.(*ast.BlockStmt); ok {
				elseList = b.List
			} else {
				elseList = []ast.Stmt{s.Else}
			}
		}
		thenRet := returns(s.Body.List)
		elseRet := hasElse && returns(elseList)
		switch {
		case thenRet && (elseRet || !hasElse):
			var e string
			if hasElse {
				e = t.stmts(elseList, "")
				if len(rest) > 0 {
					die(s.Pos(), t.p, "unreachable statements after if/else that both return")
				}
			} else {
				e = t.stmts(rest, tail)
			}
			return fmt.Sprintf("if %s then (%s)\n  else (%s)", cond, t.stmts(s.Body.List, ""), e)
		case !thenRet && !elseRet:
			set := map[string]bool{}
			assigned(s.Body.List, set)
			assigned(elseList, set)
			var vars []string
			for v := range set {
				vars = append(vars, v)
			}
			sort.Strings(vars)
			if len(vars) == 0 {
				return t.stmts(rest, tail)
			}
			tu := tuple(vars)
			return fmt.Sprintf("let %s := (if %s then (%s) else (%s)) in\n  %s", pat(vars), cond,
				t.stmts(s.Body.List, tu), t.stmts(elseList, tu), t.stmts(rest, tail))
		case !thenRet && elseRet:
			// if c { assignments } else { return }; rest
			return fmt.Sprintf("if %s then (%s)\n  else (%s)", cond, t.stmts(append(append([]ast.Stmt{}, s.Body.List...), rest...), tail), t.stmts(elseList, ""))
		default:
			// then returns, else assigns and falls through
			return fmt.Sprintf("if %s then (%s)\n  else (%s)", cond, t.stmts(s.Body.List, ""), t.stmts(append(append([]ast.Stmt{}, elseList...), rest...), tail))
		}
	case *ast.ForStmt:
		// for i := 0; i < len(s); i++ { body using s[i] }
		init, ok1 := s.Init.(*ast.AssignStmt)
		cond, ok2 := s.Cond.(*ast.BinaryExpr)
		post, ok3 := s.Post.(*ast.IncDecStmt)
		if !ok1 || !ok2 || !ok3 || init.Tok != token.DEFINE || len(init.Lhs) != 1 || cond.Op != token.LSS || post.Tok != token.INC {
			die(s.Pos(), t.p, "unsupported loop form")
		}
		iv := init.Lhs[0].(*ast.Ident).Name
		if tv := t.p.info.Types[init.Rhs[0]]; tv.Value == nil || zlit(tv.Value) != "0" {
			die(s.Pos(), t.p, "loop must start at 0")
		}
		call, ok := cond.Y.(*ast.CallExpr)
		if !ok || len(call.Args) != 1 {
			die(s.Pos(), t.p, "loop bound must be len(s)")
		}
		if f, ok := call.Fun.(*ast.Ident); !ok || f.Name != "len" {
			die(s.Pos(), t.p, "loop bound must be len(s)")
		}
		sv, ok := call.Args[0].(*ast.Ident)
		if !ok {
			die(s.Pos(), t.p, "loop bound must be len(<variable>)")
		}
		if x, ok := cond.X.(*ast.Ident); !ok || x.Name != iv {
			die(s.Pos(), t.p, "loop condition must test the index variable")
		}
		// rewrite s[i] -> element variable
		elem := "elem_" + sv.Name
		body := rewriteIndex(s.Body.List, sv.Name, iv, elem, t)
		set := map[string]bool{}
		assigned(body, set)
		var vars []string
		for v := range set {
			vars = append(vars, v)
		}
		sort.Strings(vars)
		if len(vars) == 0 {
			return t.stmts(rest, tail)
		}
		tu := tuple(vars)
		return fmt.Sprintf("let %s := fold_left (fun %s v_%s => %s) v_%s %s in\n  %s", pat(vars), funPat(vars), elem,
			t.stmts(body, tu), sv.Name, tu, t.stmts(rest, tail))
	case *ast.ExprStmt:
		// calls for effect (debug printing) are not part of the subset
		die(s.Pos(), t.p, "expression statement")
	case *ast.BlockStmt:
		return t.stmts(append(append([]ast.Stmt{}, s.List...), rest...), tail)
	}
	die(s.Pos(), t.p, "unsupported statement %T", s)
	return ""
}

func funPat(vars []string) string {
	if len(vars) == 1 {
		return "v_" + vars[0]
	}
	return "'" + tuple(vars)
}

// rewriteIndex replaces s[i] by the identifier elem (typed as byte) in a copy
// of the statements, and rejects any other use of the index variable.
func rewriteIndex(list []ast.Stmt, sname, iname, elem string, t *tr) []ast.Stmt {
	var out []ast.Stmt
	for _, s := range list {
		out = append(out, rewriteStmt(s, sname, iname, elem, t))
	}
	return out
}

func rewriteStmt(s ast.Stmt, sname, iname, elem string, t *tr) ast.Stmt {
	switch s := s.(type) {
	case *ast.AssignStmt:
		c := *s
		c.Rhs = nil
		for _, r := range s.Rhs {
			c.Rhs = append(c.Rhs, rewriteExpr(r, sname, iname, elem, t))
		}
		return &c
	case *ast.IfStmt:
		c := *s
		c.Cond = rewriteExpr(s.Cond, sname, iname, elem, t)
		c.Body = &ast.BlockStmt{List: rewriteIndex(s.Body.List, sname, iname, elem, t)}
		if s.Else != nil {
			c.Else = rewriteStmt(s.Else, sname, iname, elem, t)
		}
		return &c
	case *ast.BlockStmt:
		return &ast.BlockStmt{List: rewriteIndex(s.List, sname, iname, elem, t)}
	}
	die(s.Pos(), t.p, "unsupported statement in loop body %T", s)
	return nil
}

func rewriteExpr(e ast.Expr, sname, iname, elem string, t *tr) ast.Expr {
	switch e := e.(type) {
	case *ast.IndexExpr:
		if x, ok := e.X.(*ast.Ident); ok && x.Name == sname {
			if i, ok := e.Index.(*ast.Ident); ok && i.Name == iname {
				id := &ast.Ident{Name: elem, NamePos: e.Pos()}
				t.p.info.Types[id] = types.TypeAndValue{Type: types.Typ[types.Uint8]}
				return id
			}
		}
		die(e.Pos(), t.p, "unsupported index expression")
	case *ast.Ident:
		if e.Name == iname {
			die(e.Pos(), t.p, "loop index used other than as s[i]")
		}
		return e
	case *ast.ParenExpr:
		c := *e
		c.X = rewriteExpr(e.X, sname, iname, elem, t)
		t.p.info.Types[&c] = t.p.info.Types[e]
		return &c
	case *ast.BinaryExpr:
		c := *e
		c.X = rewriteExpr(e.X, sname, iname, elem, t)
		c.Y = rewriteExpr(e.Y, sname, iname, elem, t)
		t.p.info.Types[&c] = t.p.info.Types[e]
		return &c
	case *ast.UnaryExpr:
		c := *e
		c.X = rewriteExpr(e.X, sname, iname, elem, t)
		t.p.info.Types[&c] = t.p.info.Types[e]
		return &c
	case *ast.CallExpr:
		c := *e
		c.Args = nil
		for _, a := range e.Args {
			c.Args = append(c.Args, rewriteExpr(a, sname, iname, elem, t))
		}
		t.p.info.Types[&c] = t.p.info.Types[e]
		return &c
	case *ast.BasicLit:
		return e
	}
	die(e.Pos(), t.p, "unsupported expression in loop body %T", e)
	return nil
}

type emitted struct {
	name string
	text string
	deps []string
}

func translate(p *pkgInfo, name string) (em emitted) {
	base := name
	var targ types.Type
	if i := strings.Index(name, "["); i >= 0 {
		base = name[:i]
		tn := strings.TrimSuffix(name[i+1:], "]")
		for _, bt := range types.Typ {
			if bt.Name() == tn {
				targ = bt
			}
		}
		if targ == nil {
			panic(fail{"unknown type argument " + tn})
		}
	}
	fd, ok := p.funcs[base]
	if !ok {
		panic(fail{"function " + base + " not found"})
	}
	t := &tr{p: p, fields: map[string]bool{}, subst: map[*types.TypeParam]types.Type{}, needs: map[string]bool{}}
	if fd.Type.TypeParams != nil {
		if targ == nil {
			panic(fail{base + " is generic: give an instance, e.g. " + base + "[uint32]"})
		}
		for _, f := range fd.Type.TypeParams.List {
			for _, n := range f.Names {
				if tp, ok := p.info.Defs[n].Type().(*types.TypeParam); ok {
					t.subst[tp] = targ
				}
			}
		}
	}
	var params []string
	if fd.Recv != nil && len(fd.Recv.List) == 1 && len(fd.Recv.List[0].Names) == 1 {
		rn := fd.Recv.List[0].Names[0].Name
		if _, isPtr := fd.Recv.List[0].Type.(*ast.StarExpr); isPtr {
			t.recv = rn
		} else {
			params = append(params, "(v_"+rn+" : Z)")
		}
	}
	for _, f := range fd.Type.Params.List {
		ty := "Z"
		if pt := p.info.TypeOf(f.Type); pt != nil {
			if b, ok := pt.Underlying().(*types.Basic); ok {
				switch {
				case b.Kind() == types.String:
					ty = "list Z"
				case b.Kind() == types.Bool:
					ty = "bool"
				}
			}
		}
		for _, n := range f.Names {
			params = append(params, "(v_"+n.Name+" : "+ty+")")
		}
	}
	body := t.stmts(fd.Body.List, "")
	var fl []string
	for f := range t.fields {
		fl = append(fl, f)
	}
	sort.Strings(fl)
	var fparams []string
	for _, f := range fl {
		fparams = append(fparams, "(v_"+t.recv+"_"+f+" : Z)")
	}
	all := append(fparams, params...)
	em.name = name
	em.text = fmt.Sprintf("(* %s: func %s *)\nDefinition %s %s :=\n  %s.\n", p.pkg.Path(), name, coqIdent(name), strings.Join(all, " "), body)
	for d := range t.needs {
		em.deps = append(em.deps, d)
	}
	sort.Strings(em.deps)
	return em
}

func main() {
	if len(os.Args) < 4 {
		fmt.Fprintln(os.Stderr, "usage: gofns <repo> <spec> <out.v>")
		os.Exit(2)
	}
	root, specFile, out := os.Args[1], os.Args[2], os.Args[3]
	sf, err := os.Open(specFile)
	if err != nil {
		fmt.Fprintln(os.Stderr, err)
		os.Exit(2)
	}
	type item struct{ dir, fn string }
	var items []item
	sc := bufio.NewScanner(sf)
	for sc.Scan() {
		line := strings.TrimSpace(sc.Text())
		if line == "" || strings.HasPrefix(line, "#") {
			continue
		}
		f := strings.Fields(line)
		if len(f) != 2 {
			fmt.Fprintf(os.Stderr, "bad spec line %q\n", line)
			os.Exit(2)
		}
		items = append(items, item{f[0], f[1]})
	}
	os.Chdir(root)
	imp := &lenient{src: importer.ForCompiler(token.NewFileSet(), "source", nil), fake: map[string]*types.Package{}}
	pkgs := map[string]*pkgInfo{}
	done := map[string]bool{}
	var order []emitted
	failed := false
	var emit func(dir, fn string)
	emit = func(dir, fn string) {
		key := dir + " " + fn
		if done[key] {
			return
		}
		done[key] = true
		p, ok := pkgs[dir]
		if !ok {
			var err error
			p, err = load(root, dir, imp)
			if err != nil {
				fmt.Fprintf(os.Stderr, "gofns: load %s: %v\n", dir, err)
				os.Exit(1)
			}
			pkgs[dir] = p
		}
		var em emitted
		func() {
			defer func() {
				if r := recover(); r != nil {
					if f, ok := r.(fail); ok {
						fmt.Fprintf(os.Stderr, "gofns: %s %s: %s\n", dir, fn, f.msg)
						failed = true
						return
					}
					panic(r)
				}
			}()
			em = translate(p, fn)
		}()
		if em.name == "" {
			return
		}
		for _, d := range em.deps {
			emit(dir, d)
		}
		order = append(order, em)
	}
	for _, it := range items {
		emit(it.dir, it.fn)
	}
	if failed {
		os.Exit(1)
	}
	var b strings.Builder
	b.WriteString("(* GENERATED by harness/tools/gofns from the Go sources of the working tree. Do not edit. *)\n")
	b.WriteString("From Coq Require Import List ZArith Bool.\nImport ListNotations.\nOpen Scope Z_scope.\n\n")
	b.WriteString("Definition wrapu (w x : Z) : Z := x mod 2 ^ w.\n")
	b.WriteString("Definition wraps (w x : Z) : Z := let y := x mod 2 ^ w in if y <? 2 ^ (w - 1) then y else y - 2 ^ w.\n\n")
	for _, em := range order {
		b.WriteString(em.text)
		b.WriteString("\n")
	}
	if old, err := os.ReadFile(out); err != nil || string(old) != b.String() {
		if err := os.WriteFile(out, []byte(b.String()), 0644); err != nil {
			fmt.Fprintln(os.Stderr, err)
			os.Exit(1)
		}
	}
}
