module verif/gofns

go 1.23
