// Package vosc mirrors the part of package os used by internal/counter and
// internal/mmap of the code under test, with fault injection: every
// file-system call is a numbered fault point; a plan maps call indices to an
// error kind.  Without a plan it is a pass-through.  The import line `"os"`
// of those packages is rewritten to this package in the scratch copy.
package vosc

import (
	"io"
	"io/fs"
	"os"
	"syscall"
	"time"

	"golang.org/x/telemetry/internal/verifh/shim/vsched"
)

const (
	O_RDWR   = os.O_RDWR
	O_CREATE = os.O_CREATE
	O_RDONLY = os.O_RDONLY
)

var Stderr = os.Stderr

func Exit(code int)          { os.Exit(code) }
func Getenv(k string) string { return os.Getenv(k) }
func Getpagesize() int       { return os.Getpagesize() }

// error kinds of a plan
const (
	KOk = iota
	KENOENT
	KEACCES
	KENOSPC
	KEIO
	KShort // short write (writes only; for other calls: no fault)
	NKinds
)

var KindName = []string{"ok", "ENOENT", "EACCES", "ENOSPC", "EIO", "short"}

// Yielding: every fault point is also a yield point of the deterministic
// scheduler (file-system-call granularity for racing openers).
var Yielding bool

var (
	plan  map[int]int // call index -> kind
	Calls int         // fault points passed so far
	Log   []string    // operation name of each fault point
	Fired []int       // indices at which a fault was injected
)

// Reset installs a plan (nil: pass-through) and clears the counters.
func Reset(p map[int]int) {
	plan = p
	Calls = 0
	Log = nil
	Fired = nil
}

func errOf(kind int, op, path string) error {
	var e error
	switch kind {
	case KENOENT:
		e = syscall.ENOENT
	case KEACCES:
		e = syscall.EACCES
	case KENOSPC:
		e = syscall.ENOSPC
	case KEIO:
		e = syscall.EIO
	default:
		return nil
	}
	return &fs.PathError{Op: op, Path: path, Err: e}
}

// Point is one fault point: it returns the planned kind for this call.
func Point(op string) int {
	if Yielding {
		vsched.Yield("fs-"+op, 0)
	}
	i := Calls
	Calls++
	Log = append(Log, op)
	k := plan[i]
	if k != KOk {
		Fired = append(Fired, i)
	}
	return k
}

// PointErr is Point for calls that cannot be short.
func PointErr(op, path string) error {
	k := Point(op)
	if k == KShort {
		return nil
	}
	return errOf(k, op, path)
}

type File struct{ *os.File }

func OpenFile(name string, flag int, perm os.FileMode) (*File, error) {
	if err := PointErr("open", name); err != nil {
		return nil, err
	}
	f, err := os.OpenFile(name, flag, perm)
	if err != nil {
		return nil, err
	}
	return &File{f}, nil
}

func ReadFile(name string) ([]byte, error) {
	if err := PointErr("readfile", name); err != nil {
		return nil, err
	}
	return os.ReadFile(name)
}

func WriteFile(name string, data []byte, perm os.FileMode) error {
	k := Point("writefile")
	if k == KShort {
		os.WriteFile(name, data[:len(data)/2], perm)
		return &fs.PathError{Op: "write", Path: name, Err: io.ErrShortWrite}
	}
	if err := errOf(k, "open", name); err != nil {
		return err
	}
	return os.WriteFile(name, data, perm)
}

func MkdirAll(path string, perm os.FileMode) error {
	if err := PointErr("mkdirall", path); err != nil {
		return err
	}
	return os.MkdirAll(path, perm)
}

func (f *File) Stat() (os.FileInfo, error) {
	if err := PointErr("stat", f.Name()); err != nil {
		return nil, err
	}
	return f.File.Stat()
}

func (f *File) WriteAt(b []byte, off int64) (int, error) {
	k := Point("writeat")
	if k == KShort {
		n, _ := f.File.WriteAt(b[:len(b)/2], off)
		return n, &fs.PathError{Op: "write", Path: f.Name(), Err: io.ErrShortWrite}
	}
	if err := errOf(k, "write", f.Name()); err != nil {
		return 0, err
	}
	return f.File.WriteAt(b, off)
}

// Truncate is a fault point too (a refactoring of extend may use it).
func (f *File) Truncate(size int64) error {
	if err := PointErr("truncate", f.Name()); err != nil {
		return err
	}
	return f.File.Truncate(size)
}

// ---- the rest of the os surface a refactoring may plausibly use ----
type (
	FileInfo  = os.FileInfo
	FileMode  = os.FileMode
	DirEntry  = os.DirEntry
	PathError = os.PathError
)

const (
	O_WRONLY      = os.O_WRONLY
	O_APPEND      = os.O_APPEND
	O_EXCL        = os.O_EXCL
	O_TRUNC       = os.O_TRUNC
	O_SYNC        = os.O_SYNC
	ModePerm      = os.ModePerm
	ModeDir       = os.ModeDir
	DevNull       = os.DevNull
	SEEK_SET      = 0
	SEEK_CUR      = 1
	SEEK_END      = 2
	PathSeparator = os.PathSeparator
)

var (
	ErrNotExist   = os.ErrNotExist
	ErrExist      = os.ErrExist
	ErrPermission = os.ErrPermission
	ErrClosed     = os.ErrClosed
	Stdout        = os.Stdout
	Args          = os.Args
)

func IsNotExist(err error) bool         { return os.IsNotExist(err) }
func IsExist(err error) bool            { return os.IsExist(err) }
func IsPermission(err error) bool       { return os.IsPermission(err) }
func Getpid() int                       { return os.Getpid() }
func TempDir() string                   { return os.TempDir() }
func Environ() []string                 { return os.Environ() }
func LookupEnv(k string) (string, bool) { return os.LookupEnv(k) }
func UserConfigDir() (string, error)    { return os.UserConfigDir() }
func Executable() (string, error)       { return os.Executable() }

func Open(name string) (*File, error) { return OpenFile(name, O_RDONLY, 0) }
func Create(name string) (*File, error) {
	return OpenFile(name, O_RDWR|O_CREATE|O_TRUNC, 0666)
}
func CreateTemp(dir, pattern string) (*File, error) {
	if err := PointErr("createtemp", dir); err != nil {
		return nil, err
	}
	f, err := os.CreateTemp(dir, pattern)
	if err != nil {
		return nil, err
	}
	return &File{f}, nil
}
func Stat(name string) (os.FileInfo, error) {
	if err := PointErr("stat", name); err != nil {
		return nil, err
	}
	return os.Stat(name)
}
func Lstat(name string) (os.FileInfo, error) {
	if err := PointErr("lstat", name); err != nil {
		return nil, err
	}
	return os.Lstat(name)
}
func Mkdir(path string, perm os.FileMode) error {
	if err := PointErr("mkdir", path); err != nil {
		return err
	}
	return os.Mkdir(path, perm)
}
func Remove(name string) error {
	if err := PointErr("remove", name); err != nil {
		return err
	}
	return os.Remove(name)
}
func RemoveAll(name string) error {
	if err := PointErr("removeall", name); err != nil {
		return err
	}
	return os.RemoveAll(name)
}
func Rename(a, b string) error {
	if err := PointErr("rename", a); err != nil {
		return err
	}
	return os.Rename(a, b)
}
func Link(a, b string) error {
	if err := PointErr("link", a); err != nil {
		return err
	}
	return os.Link(a, b)
}
func Symlink(a, b string) error {
	if err := PointErr("symlink", a); err != nil {
		return err
	}
	return os.Symlink(a, b)
}
func Truncate(name string, size int64) error {
	if err := PointErr("truncate", name); err != nil {
		return err
	}
	return os.Truncate(name, size)
}
func Chmod(name string, mode os.FileMode) error {
	if err := PointErr("chmod", name); err != nil {
		return err
	}
	return os.Chmod(name, mode)
}
func Chtimes(name string, a, m time.Time) error {
	if err := PointErr("chtimes", name); err != nil {
		return err
	}
	return os.Chtimes(name, a, m)
}
func ReadDir(name string) ([]os.DirEntry, error) {
	if err := PointErr("readdir", name); err != nil {
		return nil, err
	}
	return os.ReadDir(name)
}
func SameFile(a, b os.FileInfo) bool { return os.SameFile(a, b) }

func (f *File) Write(b []byte) (int, error) {
	k := Point("write")
	if k == KShort {
		n, _ := f.File.Write(b[:len(b)/2])
		return n, &fs.PathError{Op: "write", Path: f.Name(), Err: io.ErrShortWrite}
	}
	if err := errOf(k, "write", f.Name()); err != nil {
		return 0, err
	}
	return f.File.Write(b)
}
func (f *File) Sync() error {
	if err := PointErr("sync", f.Name()); err != nil {
		return err
	}
	return f.File.Sync()
}
