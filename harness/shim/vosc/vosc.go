// Package vosc mirrors the part of package os used by internal/counter and
// internal/mmap of the code under test, with fault injection: every
// file-system call is a numbered fault point; a plan maps call indices to an
// error kind.  Without a plan it is a pass-through.  The import line `"os"`
// of those packages is rewritten to this package in the scratch copy.
package vosc

import (
	"io"
	"io/fs"
	"os"
	"syscall"
)

const (
	O_RDWR   = os.O_RDWR
	O_CREATE = os.O_CREATE
	O_RDONLY = os.O_RDONLY
)

var Stderr = os.Stderr

func Exit(code int)          { os.Exit(code) }
func Getenv(k string) string { return os.Getenv(k) }
func Getpagesize() int       { return os.Getpagesize() }

// error kinds of a plan
const (
	KOk = iota
	KENOENT
	KEACCES
	KENOSPC
	KEIO
	KShort // short write (writes only; for other calls: no fault)
	NKinds
)

var KindName = []string{"ok", "ENOENT", "EACCES", "ENOSPC", "EIO", "short"}

var (
	plan  map[int]int // call index -> kind
	Calls int         // fault points passed so far
	Log   []string    // operation name of each fault point
	Fired []int       // indices at which a fault was injected
)

// Reset installs a plan (nil: pass-through) and clears the counters.
func Reset(p map[int]int) {
	plan = p
	Calls = 0
	Log = nil
	Fired = nil
}

func errOf(kind int, op, path string) error {
	var e error
	switch kind {
	case KENOENT:
		e = syscall.ENOENT
	case KEACCES:
		e = syscall.EACCES
	case KENOSPC:
		e = syscall.ENOSPC
	case KEIO:
		e = syscall.EIO
	default:
		return nil
	}
	return &fs.PathError{Op: op, Path: path, Err: e}
}

// Point is one fault point: it returns the planned kind for this call.
func Point(op string) int {
	i := Calls
	Calls++
	Log = append(Log, op)
	k := plan[i]
	if k != KOk {
		Fired = append(Fired, i)
	}
	return k
}

// PointErr is Point for calls that cannot be short.
func PointErr(op, path string) error {
	k := Point(op)
	if k == KShort {
		return nil
	}
	return errOf(k, op, path)
}

type File struct{ *os.File }

func OpenFile(name string, flag int, perm os.FileMode) (*File, error) {
	if err := PointErr("open", name); err != nil {
		return nil, err
	}
	f, err := os.OpenFile(name, flag, perm)
	if err != nil {
		return nil, err
	}
	return &File{f}, nil
}

func ReadFile(name string) ([]byte, error) {
	if err := PointErr("readfile", name); err != nil {
		return nil, err
	}
	return os.ReadFile(name)
}

func WriteFile(name string, data []byte, perm os.FileMode) error {
	k := Point("writefile")
	if k == KShort {
		os.WriteFile(name, data[:len(data)/2], perm)
		return &fs.PathError{Op: "write", Path: name, Err: io.ErrShortWrite}
	}
	if err := errOf(k, "open", name); err != nil {
		return err
	}
	return os.WriteFile(name, data, perm)
}

func MkdirAll(path string, perm os.FileMode) error {
	if err := PointErr("mkdirall", path); err != nil {
		return err
	}
	return os.MkdirAll(path, perm)
}

func (f *File) Stat() (os.FileInfo, error) {
	if err := PointErr("stat", f.Name()); err != nil {
		return nil, err
	}
	return f.File.Stat()
}

func (f *File) WriteAt(b []byte, off int64) (int, error) {
	k := Point("writeat")
	if k == KShort {
		n, _ := f.File.WriteAt(b[:len(b)/2], off)
		return n, &fs.PathError{Op: "write", Path: f.Name(), Err: io.ErrShortWrite}
	}
	if err := errOf(k, "write", f.Name()); err != nil {
		return 0, err
	}
	return f.File.WriteAt(b, off)
}
