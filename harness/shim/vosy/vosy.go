// Package vosy mirrors the part of package os used by internal/counter and
// internal/mmap of the code under test for the C10 harness (vh_layout).  Every
// file-system call (OpenFile, Stat, WriteAt, ReadFile, WriteFile, MkdirAll)
//   - first parks the calling thread when it runs under the deterministic
//     scheduler (vsched.Yield; a pass-through otherwise), so that several
//     writers can be interleaved at file-system-call granularity, and
//   - is a numbered fault point: a plan maps call indices to an errno; the
//     call then fails WITHOUT touching the file system.
// Without scheduler and plan it is package os.  The import line `"os"` of
// those packages is rewritten to this package in the scratch copy only.
package vosy

import (
	"io/fs"
	"os"
	"syscall"

	"golang.org/x/telemetry/internal/verifh/shim/vsched"
)

const (
	O_RDWR   = os.O_RDWR
	O_CREATE = os.O_CREATE
	O_RDONLY = os.O_RDONLY
)

var Stderr = os.Stderr

func Exit(code int)          { os.Exit(code) }
func Getenv(k string) string { return os.Getenv(k) }
func Getpagesize() int       { return os.Getpagesize() }

var (
	plan  map[int]syscall.Errno // call index -> errno
	Calls int                   // fault points passed since Reset
	Log   []string              // operation of each fault point
	Fired []int                 // indices at which a fault was injected
)

// Reset installs a plan (nil: no faults) and clears the counters.
func Reset(p map[int]syscall.Errno) {
	plan = p
	Calls = 0
	Log = nil
	Fired = nil
}

func point(op, path string) error {
	vsched.Yield(op+" "+path, 0)
	i := Calls
	Calls++
	Log = append(Log, op)
	if e, ok := plan[i]; ok {
		Fired = append(Fired, i)
		return &fs.PathError{Op: op, Path: path, Err: e}
	}
	return nil
}

type File struct{ *os.File }

func OpenFile(name string, flag int, perm os.FileMode) (*File, error) {
	if err := point("open", name); err != nil {
		return nil, err
	}
	f, err := os.OpenFile(name, flag, perm)
	if err != nil {
		return nil, err
	}
	return &File{f}, nil
}

func ReadFile(name string) ([]byte, error) {
	if err := point("readfile", name); err != nil {
		return nil, err
	}
	return os.ReadFile(name)
}

func WriteFile(name string, data []byte, perm os.FileMode) error {
	if err := point("writefile", name); err != nil {
		return err
	}
	return os.WriteFile(name, data, perm)
}

func MkdirAll(path string, perm os.FileMode) error {
	if err := point("mkdirall", path); err != nil {
		return err
	}
	return os.MkdirAll(path, perm)
}

func (f *File) Stat() (os.FileInfo, error) {
	if err := point("stat", f.Name()); err != nil {
		return nil, err
	}
	return f.File.Stat()
}

func (f *File) WriteAt(b []byte, off int64) (int, error) {
	if err := point("writeat", f.Name()); err != nil {
		return 0, err
	}
	return f.File.WriteAt(b, off)
}
