// Package vosy mirrors the part of package os used by internal/counter and
// internal/mmap of the code under test for the C10 harness (vh_layout).  Every
// file-system call (OpenFile, Stat, WriteAt, ReadFile, WriteFile, MkdirAll)
//   - first parks the calling thread when it runs under the deterministic
//     scheduler (vsched.Yield; a pass-through otherwise), so that several
//     writers can be interleaved at file-system-call granularity, and
//   - is a numbered fault point: a plan maps call indices to an errno; the
//     call then fails WITHOUT touching the file system.
//
// Without scheduler and plan it is package os.  The import line `"os"` of
// those packages is rewritten to this package in the scratch copy only.
package vosy

import (
	"io/fs"
	"os"
	"syscall"

	"golang.org/x/telemetry/internal/verifh/shim/vsched"
)

const (
	O_RDWR   = os.O_RDWR
	O_CREATE = os.O_CREATE
	O_RDONLY = os.O_RDONLY
)

var Stderr = os.Stderr

func Exit(code int)          { os.Exit(code) }
func Getenv(k string) string { return os.Getenv(k) }
func Getpagesize() int       { return os.Getpagesize() }

var (
	plan  map[int]syscall.Errno // call index -> errno
	Calls int                   // fault points passed since Reset
	Log   []string              // operation of each fault point
	Fired []int                 // indices at which a fault was injected
)

// Reset installs a plan (nil: no faults) and clears the counters.
func Reset(p map[int]syscall.Errno) {
	plan = p
	Calls = 0
	Log = nil
	Fired = nil
}

func point(op, path string) error {
	vsched.Yield(op+" "+path, 0)
	i := Calls
	Calls++
	Log = append(Log, op)
	if e, ok := plan[i]; ok {
		Fired = append(Fired, i)
		return &fs.PathError{Op: op, Path: path, Err: e}
	}
	return nil
}

type File struct{ *os.File }

func OpenFile(name string, flag int, perm os.FileMode) (*File, error) {
	if err := point("open", name); err != nil {
		return nil, err
	}
	f, err := os.OpenFile(name, flag, perm)
	if err != nil {
		return nil, err
	}
	return &File{f}, nil
}

func ReadFile(name string) ([]byte, error) {
	if err := point("readfile", name); err != nil {
		return nil, err
	}
	return os.ReadFile(name)
}

func WriteFile(name string, data []byte, perm os.FileMode) error {
	if err := point("writefile", name); err != nil {
		return err
	}
	return os.WriteFile(name, data, perm)
}

func MkdirAll(path string, perm os.FileMode) error {
	if err := point("mkdirall", path); err != nil {
		return err
	}
	return os.MkdirAll(path, perm)
}

func (f *File) Stat() (os.FileInfo, error) {
	if err := point("stat", f.Name()); err != nil {
		return nil, err
	}
	return f.File.Stat()
}

func (f *File) WriteAt(b []byte, off int64) (int, error) {
	if err := point("writeat", f.Name()); err != nil {
		return 0, err
	}
	return f.File.WriteAt(b, off)
}

// ---- the rest of the os surface a refactoring of the code under test may
// reach for: same semantics as package os, every call a yield + fault point.

type (
	FileInfo  = os.FileInfo
	FileMode  = os.FileMode
	DirEntry  = os.DirEntry
	PathError = os.PathError
	LinkError = os.LinkError
)

const (
	O_WRONLY      = os.O_WRONLY
	O_APPEND      = os.O_APPEND
	O_EXCL        = os.O_EXCL
	O_SYNC        = os.O_SYNC
	O_TRUNC       = os.O_TRUNC
	ModePerm      = os.ModePerm
	ModeDir       = os.ModeDir
	DevNull       = os.DevNull
	PathSeparator = os.PathSeparator
)

var (
	ErrNotExist   = os.ErrNotExist
	ErrExist      = os.ErrExist
	ErrPermission = os.ErrPermission
	ErrClosed     = os.ErrClosed
	ErrInvalid    = os.ErrInvalid
	Stdout        = os.Stdout
	Stdin         = os.Stdin
	Args          = os.Args
)

func IsNotExist(err error) bool             { return os.IsNotExist(err) }
func IsExist(err error) bool                { return os.IsExist(err) }
func IsPermission(err error) bool           { return os.IsPermission(err) }
func Getpid() int                           { return os.Getpid() }
func Getuid() int                           { return os.Getuid() }
func Hostname() (string, error)             { return os.Hostname() }
func TempDir() string                       { return os.TempDir() }
func Getwd() (string, error)                { return os.Getwd() }
func Environ() []string                     { return os.Environ() }
func LookupEnv(k string) (string, bool)     { return os.LookupEnv(k) }
func Setenv(k, v string) error              { return os.Setenv(k, v) }
func UserHomeDir() (string, error)          { return os.UserHomeDir() }
func UserConfigDir() (string, error)        { return os.UserConfigDir() }
func UserCacheDir() (string, error)         { return os.UserCacheDir() }
func Executable() (string, error)           { return os.Executable() }
func SameFile(a, b os.FileInfo) bool        { return os.SameFile(a, b) }
func NewFile(fd uintptr, name string) *File { return &File{os.NewFile(fd, name)} }

func wrap(f *os.File, err error) (*File, error) {
	if err != nil {
		return nil, err
	}
	return &File{f}, nil
}

func Open(name string) (*File, error) {
	if err := point("open", name); err != nil {
		return nil, err
	}
	return wrap(os.Open(name))
}

func Create(name string) (*File, error) {
	if err := point("create", name); err != nil {
		return nil, err
	}
	return wrap(os.Create(name))
}

func CreateTemp(dir, pattern string) (*File, error) {
	if err := point("createtemp", dir); err != nil {
		return nil, err
	}
	return wrap(os.CreateTemp(dir, pattern))
}

func MkdirTemp(dir, pattern string) (string, error) {
	if err := point("mkdirtemp", dir); err != nil {
		return "", err
	}
	return os.MkdirTemp(dir, pattern)
}

func Mkdir(name string, perm os.FileMode) error {
	if err := point("mkdir", name); err != nil {
		return err
	}
	return os.Mkdir(name, perm)
}

func Stat(name string) (os.FileInfo, error) {
	if err := point("stat", name); err != nil {
		return nil, err
	}
	return os.Stat(name)
}

func Lstat(name string) (os.FileInfo, error) {
	if err := point("lstat", name); err != nil {
		return nil, err
	}
	return os.Lstat(name)
}

func ReadDir(name string) ([]os.DirEntry, error) {
	if err := point("readdir", name); err != nil {
		return nil, err
	}
	return os.ReadDir(name)
}

func Rename(oldpath, newpath string) error {
	if err := point("rename", oldpath); err != nil {
		return err
	}
	return os.Rename(oldpath, newpath)
}

func Link(oldname, newname string) error {
	if err := point("link", oldname); err != nil {
		return err
	}
	return os.Link(oldname, newname)
}

func Symlink(oldname, newname string) error {
	if err := point("symlink", oldname); err != nil {
		return err
	}
	return os.Symlink(oldname, newname)
}

func Remove(name string) error {
	if err := point("remove", name); err != nil {
		return err
	}
	return os.Remove(name)
}

func RemoveAll(name string) error {
	if err := point("removeall", name); err != nil {
		return err
	}
	return os.RemoveAll(name)
}

func Truncate(name string, size int64) error {
	if err := point("truncate", name); err != nil {
		return err
	}
	return os.Truncate(name, size)
}

func Chmod(name string, mode os.FileMode) error {
	if err := point("chmod", name); err != nil {
		return err
	}
	return os.Chmod(name, mode)
}

func (f *File) Truncate(size int64) error {
	if err := point("ftruncate", f.Name()); err != nil {
		return err
	}
	return f.File.Truncate(size)
}

func (f *File) Write(b []byte) (int, error) {
	if err := point("write", f.Name()); err != nil {
		return 0, err
	}
	return f.File.Write(b)
}

func (f *File) WriteString(s string) (int, error) {
	if err := point("write", f.Name()); err != nil {
		return 0, err
	}
	return f.File.WriteString(s)
}

func (f *File) ReadAt(b []byte, off int64) (int, error) {
	if err := point("readat", f.Name()); err != nil {
		return 0, err
	}
	return f.File.ReadAt(b, off)
}

func (f *File) Read(b []byte) (int, error) {
	if err := point("read", f.Name()); err != nil {
		return 0, err
	}
	return f.File.Read(b)
}

func (f *File) Sync() error {
	if err := point("sync", f.Name()); err != nil {
		return err
	}
	return f.File.Sync()
}

func (f *File) Chmod(mode os.FileMode) error {
	if err := point("fchmod", f.Name()); err != nil {
		return err
	}
	return f.File.Chmod(mode)
}
