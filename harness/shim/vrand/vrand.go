// Package vrand mirrors crypto/rand.Read for internal/upload's computeRandom
// in the fault suite: the read is a numbered fault point of the plan shared
// with vos; without a fault it returns fixed bytes (the float64 1.5, so that
// computeRandom never loops: exactly one read per report).
package vrand

import (
	"encoding/binary"
	"errors"
	"math"

	"golang.org/x/telemetry/internal/verifh/shim/vos"
)

func Read(b []byte) (int, error) {
	if vos.PlanMode {
		k := vos.Point("rand", "")
		if k >= vos.KENOENT && k <= vos.KEIO {
			return 0, errors.New("vrand: injected entropy failure")
		}
	}
	if len(b) >= 8 {
		binary.LittleEndian.PutUint64(b, math.Float64bits(1.5))
	}
	return len(b), nil
}
