// Package vatomic mirrors the part of sync/atomic used by the code under
// test.  Every operation first yields to the deterministic scheduler, then
// performs the real atomic operation.  The types have the same memory
// layout as the sync/atomic ones, so casts from mapped memory keep working.
package vatomic

import (
	"fmt"
	"sync/atomic"
	"unsafe"

	"golang.org/x/telemetry/internal/verifh/shim/vsched"
)

// Closed regions: memory the code under test has "unmapped".  The harness
// replaces munmap by MarkClosed so that a late access is reported instead of
// faulting.
type region struct{ lo, hi uintptr }

var closed []region

func MarkClosed(p unsafe.Pointer, n int) {
	closed = append(closed, region{uintptr(p), uintptr(p) + uintptr(n)})
}
func ResetClosed() { closed = nil }

func pre(label string, p unsafe.Pointer) {
	vsched.Yield(label, uintptr(p))
	a := uintptr(p)
	for i, r := range closed {
		if a >= r.lo && a < r.hi {
			vsched.Event(fmt.Sprintf("USE-AFTER-UNMAP %s region=%d", label, i))
		}
	}
}

type Uint32 struct{ v uint32 }

func (x *Uint32) Load() uint32 { pre("load32", unsafe.Pointer(x)); return atomic.LoadUint32(&x.v) }
func (x *Uint32) Store(v uint32) {
	pre("store32", unsafe.Pointer(x))
	atomic.StoreUint32(&x.v, v)
}
func (x *Uint32) CompareAndSwap(old, new uint32) bool {
	pre("cas32", unsafe.Pointer(x))
	return atomic.CompareAndSwapUint32(&x.v, old, new)
}
func (x *Uint32) Add(d uint32) uint32 {
	pre("add32", unsafe.Pointer(x))
	return atomic.AddUint32(&x.v, d)
}

type Uint64 struct{ v uint64 }

func (x *Uint64) Load() uint64 { pre("load64", unsafe.Pointer(x)); return atomic.LoadUint64(&x.v) }
func (x *Uint64) Store(v uint64) {
	pre("store64", unsafe.Pointer(x))
	atomic.StoreUint64(&x.v, v)
}
func (x *Uint64) CompareAndSwap(old, new uint64) bool {
	pre("cas64", unsafe.Pointer(x))
	return atomic.CompareAndSwapUint64(&x.v, old, new)
}
func (x *Uint64) Add(d uint64) uint64 {
	pre("add64", unsafe.Pointer(x))
	return atomic.AddUint64(&x.v, d)
}

type Int32 struct{ v int32 }

func (x *Int32) Load() int32   { pre("loadi32", unsafe.Pointer(x)); return atomic.LoadInt32(&x.v) }
func (x *Int32) Store(v int32) { pre("storei32", unsafe.Pointer(x)); atomic.StoreInt32(&x.v, v) }
func (x *Int32) CompareAndSwap(old, new int32) bool {
	pre("casi32", unsafe.Pointer(x))
	return atomic.CompareAndSwapInt32(&x.v, old, new)
}

type Bool struct{ v uint32 }

func (x *Bool) Load() bool { pre("loadb", unsafe.Pointer(x)); return atomic.LoadUint32(&x.v) != 0 }
func (x *Bool) Store(v bool) {
	pre("storeb", unsafe.Pointer(x))
	var u uint32
	if v {
		u = 1
	}
	atomic.StoreUint32(&x.v, u)
}

type Pointer[T any] struct{ p atomic.Pointer[T] }

func (x *Pointer[T]) Load() *T { pre("loadp", unsafe.Pointer(x)); return x.p.Load() }
func (x *Pointer[T]) Store(v *T) {
	pre("storep", unsafe.Pointer(x))
	x.p.Store(v)
}
func (x *Pointer[T]) CompareAndSwap(old, new *T) bool {
	pre("casp", unsafe.Pointer(x))
	return x.p.CompareAndSwap(old, new)
}

func StoreUint32(addr *uint32, v uint32) {
	pre("store32", unsafe.Pointer(addr))
	atomic.StoreUint32(addr, v)
}
func LoadUint32(addr *uint32) uint32 {
	pre("load32", unsafe.Pointer(addr))
	return atomic.LoadUint32(addr)
}
func StoreUint64(addr *uint64, v uint64) {
	pre("store64", unsafe.Pointer(addr))
	atomic.StoreUint64(addr, v)
}
func LoadUint64(addr *uint64) uint64 {
	pre("load64", unsafe.Pointer(addr))
	return atomic.LoadUint64(addr)
}
func CompareAndSwapUint32(addr *uint32, old, new uint32) bool {
	pre("cas32", unsafe.Pointer(addr))
	return atomic.CompareAndSwapUint32(addr, old, new)
}
func CompareAndSwapUint64(addr *uint64, old, new uint64) bool {
	pre("cas64", unsafe.Pointer(addr))
	return atomic.CompareAndSwapUint64(addr, old, new)
}
func AddUint64(addr *uint64, d uint64) uint64 {
	pre("add64", unsafe.Pointer(addr))
	return atomic.AddUint64(addr, d)
}
func AddInt64(addr *int64, d int64) int64 {
	pre("addi64", unsafe.Pointer(addr))
	return atomic.AddInt64(addr, d)
}
func AddInt32(addr *int32, d int32) int32 {
	pre("addi32", unsafe.Pointer(addr))
	return atomic.AddInt32(addr, d)
}

// Peek reads without yielding (harness observations between steps).
func (x *Uint64) Peek() uint64 { return atomic.LoadUint64(&x.v) }
func (x *Uint32) Peek() uint32 { return atomic.LoadUint32(&x.v) }
func (x *Pointer[T]) Peek() *T { return x.p.Load() }

func NClosed() int { return len(closed) }
func IsClosedAddr(a uintptr) bool {
	for _, r := range closed {
		if a >= r.lo && a < r.hi {
			return true
		}
	}
	return false
}
