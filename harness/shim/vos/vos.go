// Package vos mirrors the part of package os that internal/upload uses, on
// top of the deterministic scheduler: every file-system call first parks the
// calling thread (vsched.Yield with label "<Op> <path>"), and performs the
// real call when the harness steps the thread.  Everything else the package
// takes from os is re-exported unchanged.  An optional fault plan makes a
// chosen call fail without touching the file system.
package vos

import (
	"fmt"
	"io"
	"io/fs"
	"os"
	"path/filepath"
	"strings"
	"syscall"
	"time"

	"golang.org/x/telemetry/internal/verifh/shim/vsched"
)

type (
	FileInfo  = os.FileInfo
	FileMode  = os.FileMode
	DirEntry  = os.DirEntry
	PathError = os.PathError
	LinkError = os.LinkError
	Signal    = os.Signal
)

var (
	Args        = os.Args
	ErrExist    = os.ErrExist
	ErrNotExist = os.ErrNotExist
	Stdin       = os.Stdin
	Stdout      = os.Stdout
	Stderr      = os.Stderr

	ErrInvalid          = os.ErrInvalid
	ErrPermission       = os.ErrPermission
	ErrClosed           = os.ErrClosed
	ErrDeadlineExceeded = os.ErrDeadlineExceeded
	ErrNoDeadline       = os.ErrNoDeadline
	Interrupt           = os.Interrupt
	Kill                = os.Kill
)

const (
	O_RDONLY = os.O_RDONLY
	O_WRONLY = os.O_WRONLY
	O_RDWR   = os.O_RDWR
	O_APPEND = os.O_APPEND
	O_CREATE = os.O_CREATE
	O_EXCL   = os.O_EXCL
	O_SYNC   = os.O_SYNC
	O_TRUNC  = os.O_TRUNC

	ModeDir        = os.ModeDir
	ModeAppend     = os.ModeAppend
	ModeExclusive  = os.ModeExclusive
	ModeTemporary  = os.ModeTemporary
	ModeSymlink    = os.ModeSymlink
	ModeDevice     = os.ModeDevice
	ModeNamedPipe  = os.ModeNamedPipe
	ModeSocket     = os.ModeSocket
	ModeSetuid     = os.ModeSetuid
	ModeSetgid     = os.ModeSetgid
	ModeCharDevice = os.ModeCharDevice
	ModeSticky     = os.ModeSticky
	ModeIrregular  = os.ModeIrregular
	ModeType       = os.ModeType
	ModePerm       = os.ModePerm

	PathSeparator     = os.PathSeparator
	PathListSeparator = os.PathListSeparator
	DevNull           = os.DevNull

	SEEK_SET = os.SEEK_SET
	SEEK_CUR = os.SEEK_CUR
	SEEK_END = os.SEEK_END
)

func Getpid() int                                   { return os.Getpid() }
func Getenv(k string) string                        { return os.Getenv(k) }
func IsExist(err error) bool                        { return os.IsExist(err) }
func IsNotExist(err error) bool                     { return os.IsNotExist(err) }
func UserConfigDir() (string, error)                { return os.UserConfigDir() }
func UserCacheDir() (string, error)                 { return os.UserCacheDir() }
func UserHomeDir() (string, error)                  { return os.UserHomeDir() }
func Getppid() int                                  { return os.Getppid() }
func Getuid() int                                   { return os.Getuid() }
func Geteuid() int                                  { return os.Geteuid() }
func Getgid() int                                   { return os.Getgid() }
func Getegid() int                                  { return os.Getegid() }
func Getwd() (string, error)                        { return os.Getwd() }
func Hostname() (string, error)                     { return os.Hostname() }
func Executable() (string, error)                   { return os.Executable() }
func TempDir() string                               { return os.TempDir() }
func Environ() []string                             { return os.Environ() }
func LookupEnv(k string) (string, bool)             { return os.LookupEnv(k) }
func Setenv(k, v string) error                      { return os.Setenv(k, v) }
func Unsetenv(k string) error                       { return os.Unsetenv(k) }
func ExpandEnv(s string) string                     { return os.ExpandEnv(s) }
func Expand(s string, m func(string) string) string { return os.Expand(s, m) }
func Exit(code int)                                 { os.Exit(code) }
func IsPermission(err error) bool                   { return os.IsPermission(err) }
func IsTimeout(err error) bool                      { return os.IsTimeout(err) }
func IsPathSeparator(c uint8) bool                  { return os.IsPathSeparator(c) }
func SameFile(a, b FileInfo) bool                   { return os.SameFile(a, b) }
func DirFS(dir string) fs.FS                        { return os.DirFS(dir) }
func NewSyscallError(s string, err error) error     { return os.NewSyscallError(s, err) }

// Fault, when non-nil, is asked before every call (after the yield); a
// non-nil answer is returned as the call's error and the call is skipped.
var Fault func(op, path string) error

// Calls counts the instrumented calls performed (all threads).
var Calls int

// ---- fault plans (C05): in plan mode every call is a numbered fault point,
// File.Close included; the plan maps call indices to a kind ----
const (
	KOk = iota
	KENOENT
	KEACCES
	KENOSPC
	KEIO
	KShort // short write (File.Write, WriteFile); no fault for other calls
	K4xx   // server answers (http.Post); no fault for other calls
	K5xx
	NKinds
)

var KindName = []string{"ok", "ENOENT", "EACCES", "ENOSPC", "EIO", "short", "4xx", "5xx"}

var (
	PlanMode bool
	plan     map[int]int
	Log      []string // "<op> <path>" of each fault point
	Fired    []int
	Budget   = 1 << 30
)

// HangError is the panic value raised when a run exceeds its call budget (or,
// from vsyncu, blocks for ever on a mutex).
type HangError struct{ Calls int }

// Hung is set when the run blocked for ever (vsyncu); reset by Reset.
var Hung bool

// Reset switches plan mode on with the given plan (nil: no faults) and budget.
func Reset(p map[int]int, budget int) {
	PlanMode, plan, Calls, Log, Fired, Budget = true, p, 0, nil, nil, budget
	Hung = false
	Rule = nil
	FiredKinds = map[int]int{}
}

// Off leaves plan mode.
func Off() { PlanMode, plan, Rule = false, nil, nil }

// Point is one fault point in plan mode: it returns the planned kind.
func Point(op, path string) int {
	i := Calls
	Calls++
	Log = append(Log, op+" "+path)
	if Calls > Budget {
		panic(HangError{Calls})
	}
	k := plan[i]
	if k == KOk && Rule != nil {
		k = Rule(op, path)
	}
	if k != KOk {
		Fired = append(Fired, i)
		FiredKinds[i] = k
	}
	return k
}

// Rule, when non-nil in plan mode, is a persistent fault: it is asked for
// every call the plan leaves alone (a read-only directory, a name that cannot
// be removed: the same call fails however often it is repeated).  FiredKinds
// records index -> kind of every fault that fired, which is the equivalent
// index plan of the run.
var Rule func(op, path string) int
var FiredKinds = map[int]int{}

func errOf(kind int, op, path string) error {
	var e error
	switch kind {
	case KENOENT:
		e = syscall.ENOENT
	case KEACCES:
		e = syscall.EACCES
	case KENOSPC:
		e = syscall.ENOSPC
	case KEIO:
		e = syscall.EIO
	default:
		return nil
	}
	return &fs.PathError{Op: op, Path: path, Err: e}
}

// short reports whether the last point asked for a short write.
var lastKind int

func pre(op, path string) error {
	if PlanMode {
		lastKind = Point(op, path)
		return errOf(lastKind, strings.ToLower(op), path)
	}
	vsched.Yield(op+" "+path, 0)
	Calls++
	if Fault != nil {
		return Fault(op, path)
	}
	return nil
}

// File wraps *os.File; Write is a yield point (the file is visible, empty,
// between its exclusive creation and the write).  Close is not: it has no
// effect that another process can observe.
type File struct{ *os.File }

func (f *File) Write(b []byte) (int, error) {
	if err := pre("Write", f.Name()); err != nil {
		return 0, err
	}
	if PlanMode && lastKind == KShort {
		n, _ := f.File.Write(b[:len(b)/2])
		return n, &fs.PathError{Op: "write", Path: f.Name(), Err: io.ErrShortWrite}
	}
	return f.File.Write(b)
}

// Close is a fault point in plan mode only (the file is closed either way).
func (f *File) Close() error {
	if PlanMode {
		k := Point("Close", f.Name())
		err := f.File.Close()
		if e := errOf(k, "close", f.Name()); e != nil {
			return e
		}
		return err
	}
	return f.File.Close()
}

func OpenFile(name string, flag int, perm FileMode) (*File, error) {
	if err := pre("OpenFile", name); err != nil {
		return nil, err
	}
	f, err := os.OpenFile(name, flag, perm)
	if err != nil {
		return nil, err
	}
	return &File{f}, nil
}

func ReadDir(name string) ([]DirEntry, error) {
	if err := pre("ReadDir", name); err != nil {
		return nil, err
	}
	return os.ReadDir(name)
}

func ReadFile(name string) ([]byte, error) {
	if err := pre("ReadFile", name); err != nil {
		return nil, err
	}
	return os.ReadFile(name)
}

func WriteFile(name string, data []byte, perm FileMode) error {
	if err := pre("WriteFile", name); err != nil {
		return err
	}
	if PlanMode && lastKind == KShort {
		os.WriteFile(name, data[:len(data)/2], perm)
		return &fs.PathError{Op: "write", Path: name, Err: io.ErrShortWrite}
	}
	return os.WriteFile(name, data, perm)
}

func Stat(name string) (FileInfo, error) {
	if err := pre("Stat", name); err != nil {
		return nil, err
	}
	return os.Stat(name)
}

func Remove(name string) error {
	if err := pre("Remove", name); err != nil {
		return err
	}
	return os.Remove(name)
}

func MkdirAll(path string, perm FileMode) error {
	if err := pre("MkdirAll", path); err != nil {
		return err
	}
	return os.MkdirAll(path, perm)
}

var _ fs.FileInfo = FileInfo(nil)

// ---- the rest of the os surface a refactoring of internal/upload may use:
// every call that reads or changes the file system is a yield point (and a
// fault point in plan mode), like the calls above ----

func Lstat(name string) (FileInfo, error) {
	if err := pre("Lstat", name); err != nil {
		return nil, err
	}
	return os.Lstat(name)
}

func Rename(oldpath, newpath string) error {
	if err := pre("Rename", oldpath+" -> "+newpath); err != nil {
		return err
	}
	return os.Rename(oldpath, newpath)
}

func Link(oldname, newname string) error {
	if err := pre("Link", oldname+" -> "+newname); err != nil {
		return err
	}
	return os.Link(oldname, newname)
}

func Symlink(oldname, newname string) error {
	if err := pre("Symlink", oldname+" -> "+newname); err != nil {
		return err
	}
	return os.Symlink(oldname, newname)
}

func Readlink(name string) (string, error) {
	if err := pre("Readlink", name); err != nil {
		return "", err
	}
	return os.Readlink(name)
}

func Truncate(name string, size int64) error {
	if err := pre("Truncate", name); err != nil {
		return err
	}
	return os.Truncate(name, size)
}

func Chmod(name string, mode FileMode) error {
	if err := pre("Chmod", name); err != nil {
		return err
	}
	return os.Chmod(name, mode)
}

func Chown(name string, uid, gid int) error {
	if err := pre("Chown", name); err != nil {
		return err
	}
	return os.Chown(name, uid, gid)
}

func Lchown(name string, uid, gid int) error {
	if err := pre("Lchown", name); err != nil {
		return err
	}
	return os.Lchown(name, uid, gid)
}

func Chtimes(name string, atime, mtime time.Time) error {
	if err := pre("Chtimes", name); err != nil {
		return err
	}
	return os.Chtimes(name, atime, mtime)
}

func Mkdir(name string, perm FileMode) error {
	if err := pre("Mkdir", name); err != nil {
		return err
	}
	return os.Mkdir(name, perm)
}

func RemoveAll(path string) error {
	if err := pre("RemoveAll", path); err != nil {
		return err
	}
	return os.RemoveAll(path)
}

func Create(name string) (*File, error) {
	return OpenFile(name, O_RDWR|O_CREATE|O_TRUNC, 0666)
}

func Open(name string) (*File, error) {
	return OpenFile(name, O_RDONLY, 0)
}

func NewFile(fd uintptr, name string) *File {
	f := os.NewFile(fd, name)
	if f == nil {
		return nil
	}
	return &File{f}
}

// tempSeq makes the names of temporary files a function of the run (the
// real os.CreateTemp draws random names: case lines must depend on the seed
// only).  Reset by ResetTemp.
var tempSeq int

func ResetTemp() { tempSeq = 0 }

func tempName(dir, pattern string) string {
	if dir == "" {
		dir = os.TempDir()
	}
	prefix, suffix := pattern, ""
	if i := strings.LastIndex(pattern, "*"); i >= 0 {
		prefix, suffix = pattern[:i], pattern[i+1:]
	}
	tempSeq++
	return filepath.Join(dir, fmt.Sprintf("%s%06d%s", prefix, 770000+tempSeq, suffix))
}

func CreateTemp(dir, pattern string) (*File, error) {
	for try := 0; try < 10000; try++ {
		name := tempName(dir, pattern)
		if err := pre("CreateTemp", name); err != nil {
			return nil, err
		}
		f, err := os.OpenFile(name, O_RDWR|O_CREATE|O_EXCL, 0600)
		if os.IsExist(err) {
			continue
		}
		if err != nil {
			return nil, err
		}
		return &File{f}, nil
	}
	return nil, &fs.PathError{Op: "createtemp", Path: dir, Err: os.ErrExist}
}

func MkdirTemp(dir, pattern string) (string, error) {
	for try := 0; try < 10000; try++ {
		name := tempName(dir, pattern)
		if err := pre("MkdirTemp", name); err != nil {
			return "", err
		}
		err := os.Mkdir(name, 0700)
		if os.IsExist(err) {
			continue
		}
		if err != nil {
			return "", err
		}
		return name, nil
	}
	return "", &fs.PathError{Op: "mkdirtemp", Path: dir, Err: os.ErrExist}
}

// ---- File methods that change what other processes can see ----

func (f *File) WriteString(s string) (int, error) { return f.Write([]byte(s)) }

func (f *File) WriteAt(b []byte, off int64) (int, error) {
	if err := pre("WriteAt", f.Name()); err != nil {
		return 0, err
	}
	if PlanMode && lastKind == KShort {
		n, _ := f.File.WriteAt(b[:len(b)/2], off)
		return n, &fs.PathError{Op: "write", Path: f.Name(), Err: io.ErrShortWrite}
	}
	return f.File.WriteAt(b, off)
}

func (f *File) ReadFrom(r io.Reader) (int64, error) {
	b, err := io.ReadAll(r)
	if err != nil {
		return 0, err
	}
	n, err := f.Write(b)
	return int64(n), err
}

func (f *File) Truncate(size int64) error {
	if err := pre("Truncate", f.Name()); err != nil {
		return err
	}
	return f.File.Truncate(size)
}

func (f *File) Chmod(mode FileMode) error {
	if err := pre("Chmod", f.Name()); err != nil {
		return err
	}
	return f.File.Chmod(mode)
}

func (f *File) Sync() error {
	if err := pre("Sync", f.Name()); err != nil {
		return err
	}
	return f.File.Sync()
}
