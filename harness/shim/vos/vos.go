// Package vos mirrors the part of package os that internal/upload uses, on
// top of the deterministic scheduler: every file-system call first parks the
// calling thread (vsched.Yield with label "<Op> <path>"), and performs the
// real call when the harness steps the thread.  Everything else the package
// takes from os is re-exported unchanged.  An optional fault plan makes a
// chosen call fail without touching the file system.
package vos

import (
	"io"
	"io/fs"
	"os"
	"strings"
	"syscall"

	"golang.org/x/telemetry/internal/verifh/shim/vsched"
)

type (
	FileInfo  = os.FileInfo
	FileMode  = os.FileMode
	DirEntry  = os.DirEntry
	PathError = os.PathError
)

var (
	Args        = os.Args
	ErrExist    = os.ErrExist
	ErrNotExist = os.ErrNotExist
	Stdout      = os.Stdout
	Stderr      = os.Stderr
)

const (
	O_RDONLY = os.O_RDONLY
	O_WRONLY = os.O_WRONLY
	O_RDWR   = os.O_RDWR
	O_APPEND = os.O_APPEND
	O_CREATE = os.O_CREATE
	O_EXCL   = os.O_EXCL
	O_SYNC   = os.O_SYNC
	O_TRUNC  = os.O_TRUNC
)

func Getpid() int                    { return os.Getpid() }
func Getenv(k string) string         { return os.Getenv(k) }
func IsExist(err error) bool         { return os.IsExist(err) }
func IsNotExist(err error) bool      { return os.IsNotExist(err) }
func UserConfigDir() (string, error) { return os.UserConfigDir() }

// Fault, when non-nil, is asked before every call (after the yield); a
// non-nil answer is returned as the call's error and the call is skipped.
var Fault func(op, path string) error

// Calls counts the instrumented calls performed (all threads).
var Calls int

// ---- fault plans (C05): in plan mode every call is a numbered fault point,
// File.Close included; the plan maps call indices to a kind ----
const (
	KOk = iota
	KENOENT
	KEACCES
	KENOSPC
	KEIO
	KShort // short write (File.Write, WriteFile); no fault for other calls
	K4xx   // server answers (http.Post); no fault for other calls
	K5xx
	NKinds
)

var KindName = []string{"ok", "ENOENT", "EACCES", "ENOSPC", "EIO", "short", "4xx", "5xx"}

var (
	PlanMode bool
	plan     map[int]int
	Log      []string // "<op> <path>" of each fault point
	Fired    []int
	Budget   = 1 << 30
)

// HangError is the panic value raised when a run exceeds its call budget (or,
// from vsyncu, blocks for ever on a mutex).
type HangError struct{ Calls int }

// Hung is set when the run blocked for ever (vsyncu); reset by Reset.
var Hung bool

// Reset switches plan mode on with the given plan (nil: no faults) and budget.
func Reset(p map[int]int, budget int) {
	PlanMode, plan, Calls, Log, Fired, Budget = true, p, 0, nil, nil, budget
	Hung = false
}

// Off leaves plan mode.
func Off() { PlanMode, plan = false, nil }

// Point is one fault point in plan mode: it returns the planned kind.
func Point(op, path string) int {
	i := Calls
	Calls++
	Log = append(Log, op+" "+path)
	if Calls > Budget {
		panic(HangError{Calls})
	}
	k := plan[i]
	if k != KOk {
		Fired = append(Fired, i)
	}
	return k
}

func errOf(kind int, op, path string) error {
	var e error
	switch kind {
	case KENOENT:
		e = syscall.ENOENT
	case KEACCES:
		e = syscall.EACCES
	case KENOSPC:
		e = syscall.ENOSPC
	case KEIO:
		e = syscall.EIO
	default:
		return nil
	}
	return &fs.PathError{Op: op, Path: path, Err: e}
}

// short reports whether the last point asked for a short write.
var lastKind int

func pre(op, path string) error {
	if PlanMode {
		lastKind = Point(op, path)
		return errOf(lastKind, strings.ToLower(op), path)
	}
	vsched.Yield(op+" "+path, 0)
	Calls++
	if Fault != nil {
		return Fault(op, path)
	}
	return nil
}

// File wraps *os.File; Write is a yield point (the file is visible, empty,
// between its exclusive creation and the write).  Close is not: it has no
// effect that another process can observe.
type File struct{ *os.File }

func (f *File) Write(b []byte) (int, error) {
	if err := pre("Write", f.Name()); err != nil {
		return 0, err
	}
	if PlanMode && lastKind == KShort {
		n, _ := f.File.Write(b[:len(b)/2])
		return n, &fs.PathError{Op: "write", Path: f.Name(), Err: io.ErrShortWrite}
	}
	return f.File.Write(b)
}

// Close is a fault point in plan mode only (the file is closed either way).
func (f *File) Close() error {
	if PlanMode {
		k := Point("Close", f.Name())
		err := f.File.Close()
		if e := errOf(k, "close", f.Name()); e != nil {
			return e
		}
		return err
	}
	return f.File.Close()
}

func OpenFile(name string, flag int, perm FileMode) (*File, error) {
	if err := pre("OpenFile", name); err != nil {
		return nil, err
	}
	f, err := os.OpenFile(name, flag, perm)
	if err != nil {
		return nil, err
	}
	return &File{f}, nil
}

func ReadDir(name string) ([]DirEntry, error) {
	if err := pre("ReadDir", name); err != nil {
		return nil, err
	}
	return os.ReadDir(name)
}

func ReadFile(name string) ([]byte, error) {
	if err := pre("ReadFile", name); err != nil {
		return nil, err
	}
	return os.ReadFile(name)
}

func WriteFile(name string, data []byte, perm FileMode) error {
	if err := pre("WriteFile", name); err != nil {
		return err
	}
	if PlanMode && lastKind == KShort {
		os.WriteFile(name, data[:len(data)/2], perm)
		return &fs.PathError{Op: "write", Path: name, Err: io.ErrShortWrite}
	}
	return os.WriteFile(name, data, perm)
}

func Stat(name string) (FileInfo, error) {
	if err := pre("Stat", name); err != nil {
		return nil, err
	}
	return os.Stat(name)
}

func Remove(name string) error {
	if err := pre("Remove", name); err != nil {
		return err
	}
	return os.Remove(name)
}

func MkdirAll(path string, perm FileMode) error {
	if err := pre("MkdirAll", path); err != nil {
		return err
	}
	return os.MkdirAll(path, perm)
}

var _ fs.FileInfo = FileInfo(nil)
