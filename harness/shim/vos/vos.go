// Package vos mirrors the part of package os that internal/upload uses, on
// top of the deterministic scheduler: every file-system call first parks the
// calling thread (vsched.Yield with label "<Op> <path>"), and performs the
// real call when the harness steps the thread.  Everything else the package
// takes from os is re-exported unchanged.  An optional fault plan makes a
// chosen call fail without touching the file system.
package vos

import (
	"io/fs"
	"os"

	"golang.org/x/telemetry/internal/verifh/shim/vsched"
)

type (
	FileInfo = os.FileInfo
	FileMode = os.FileMode
	DirEntry = os.DirEntry
	PathError = os.PathError
)

var (
	Args        = os.Args
	ErrExist    = os.ErrExist
	ErrNotExist = os.ErrNotExist
	Stdout      = os.Stdout
	Stderr      = os.Stderr
)

const (
	O_RDONLY = os.O_RDONLY
	O_WRONLY = os.O_WRONLY
	O_RDWR   = os.O_RDWR
	O_APPEND = os.O_APPEND
	O_CREATE = os.O_CREATE
	O_EXCL   = os.O_EXCL
	O_SYNC   = os.O_SYNC
	O_TRUNC  = os.O_TRUNC
)

func Getpid() int                   { return os.Getpid() }
func Getenv(k string) string        { return os.Getenv(k) }
func IsExist(err error) bool        { return os.IsExist(err) }
func IsNotExist(err error) bool     { return os.IsNotExist(err) }
func UserConfigDir() (string, error) { return os.UserConfigDir() }

// Fault, when non-nil, is asked before every call (after the yield); a
// non-nil answer is returned as the call's error and the call is skipped.
var Fault func(op, path string) error

// Calls counts the instrumented calls performed (all threads).
var Calls int

func pre(op, path string) error {
	vsched.Yield(op+" "+path, 0)
	Calls++
	if Fault != nil {
		return Fault(op, path)
	}
	return nil
}

// File wraps *os.File; Write is a yield point (the file is visible, empty,
// between its exclusive creation and the write).  Close is not: it has no
// effect that another process can observe.
type File struct{ *os.File }

func (f *File) Write(b []byte) (int, error) {
	if err := pre("Write", f.Name()); err != nil {
		return 0, err
	}
	return f.File.Write(b)
}

func OpenFile(name string, flag int, perm FileMode) (*File, error) {
	if err := pre("OpenFile", name); err != nil {
		return nil, err
	}
	f, err := os.OpenFile(name, flag, perm)
	if err != nil {
		return nil, err
	}
	return &File{f}, nil
}

func ReadDir(name string) ([]DirEntry, error) {
	if err := pre("ReadDir", name); err != nil {
		return nil, err
	}
	return os.ReadDir(name)
}

func ReadFile(name string) ([]byte, error) {
	if err := pre("ReadFile", name); err != nil {
		return nil, err
	}
	return os.ReadFile(name)
}

func WriteFile(name string, data []byte, perm FileMode) error {
	if err := pre("WriteFile", name); err != nil {
		return err
	}
	return os.WriteFile(name, data, perm)
}

func Stat(name string) (FileInfo, error) {
	if err := pre("Stat", name); err != nil {
		return nil, err
	}
	return os.Stat(name)
}

func Remove(name string) error {
	if err := pre("Remove", name); err != nil {
		return err
	}
	return os.Remove(name)
}

func MkdirAll(path string, perm FileMode) error {
	if err := pre("MkdirAll", path); err != nil {
		return err
	}
	return os.MkdirAll(path, perm)
}

var _ fs.FileInfo = FileInfo(nil)
