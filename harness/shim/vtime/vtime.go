// Package vtime mirrors the part of package time used by internal/counter's
// file.go, with AfterFunc under the control of the harness: timers are
// recorded instead of armed, and the harness fires them.  Everything else is
// the real package time (type aliases, so values are interchangeable).
package vtime

import "time"

type (
	Time     = time.Time
	Duration = time.Duration
	Weekday  = time.Weekday
	Month    = time.Month
	Location = time.Location
)

const (
	Nanosecond  = time.Nanosecond
	Microsecond = time.Microsecond
	Millisecond = time.Millisecond
	Second      = time.Second
	Minute      = time.Minute
	Hour        = time.Hour

	RFC3339     = time.RFC3339
	RFC3339Nano = time.RFC3339Nano
	DateOnly    = time.DateOnly
	DateTime    = time.DateTime

	Sunday    = time.Sunday
	Monday    = time.Monday
	Tuesday   = time.Tuesday
	Wednesday = time.Wednesday
	Thursday  = time.Thursday
	Friday    = time.Friday
	Saturday  = time.Saturday

	January  = time.January
	December = time.December
)

var (
	UTC   = time.UTC
	Local = time.Local
)

// Clock, when set by the harness, is what Now, Since and Until read.
var Clock func() Time

func Now() Time {
	if Clock != nil {
		return Clock()
	}
	return time.Now()
}
func Since(t Time) Duration { return Now().Sub(t) }
func Until(t Time) Duration { return t.Sub(Now()) }
func Unix(sec, nsec int64) Time                  { return time.Unix(sec, nsec) }
func Parse(layout, value string) (Time, error)   { return time.Parse(layout, value) }
func ParseDuration(s string) (Duration, error)   { return time.ParseDuration(s) }
func FixedZone(name string, off int) *Location   { return time.FixedZone(name, off) }
func Sleep(d Duration)                           { time.Sleep(d) }
func Date(year int, month Month, day, hour, min, sec, nsec int, loc *Location) Time {
	return time.Date(year, month, day, hour, min, sec, nsec, loc)
}

// Timer is a recorded timer.
type Timer struct {
	D       Duration
	F       func()
	pending bool
	fired   bool
}

// Stop reports whether the call stopped the timer (false once it has fired
// or been stopped), as time.Timer.Stop does.
func (t *Timer) Stop() bool {
	was := t.pending
	t.pending = false
	return was
}

// Reset re-arms the timer and reports whether it had been pending.
func (t *Timer) Reset(d Duration) bool {
	was := t.pending
	t.D = d
	t.pending = true
	t.fired = false
	return was
}

var timers []*Timer

// AfterFunc records the timer.
func AfterFunc(d Duration, f func()) *Timer {
	t := &Timer{D: d, F: f, pending: true}
	timers = append(timers, t)
	return t
}

// NewTimer is recorded too (no channel delivery: file.go does not use one).
func NewTimer(d Duration) *Timer { return AfterFunc(d, func() {}) }

// ---- harness side ----

// ResetAll forgets all timers.
func ResetAll() { timers = nil }

// Pending returns the timers that are armed.
func Pending() []*Timer {
	var p []*Timer
	for _, t := range timers {
		if t.pending {
			p = append(p, t)
		}
	}
	return p
}

// Fire runs an armed timer's function in the calling goroutine, as the
// runtime does when the timer expires (the timer is no longer pending while
// its function runs).
func Fire(t *Timer) {
	if !t.pending {
		return
	}
	t.pending = false
	t.fired = true
	t.F()
}
