// Package vhttp mirrors the client side of net/http for internal/upload on
// top of the deterministic scheduler: sending a request (http.Post, Get,
// Head, PostForm, Client.Do and the Client methods) is a yield point, then
// the harness's scripted server decides the outcome (a status code, or no
// answer = transport error) and the request is recorded in the server's log.
// No network.  Request / Response / Header are the real net/http types, so a
// refactoring that builds requests by hand still goes through the shim.
package vhttp

import (
	"context"
	"errors"
	"fmt"
	"io"
	"net/http"
	"net/url"
	"strings"
	"time"

	"golang.org/x/telemetry/internal/verifh/shim/vsched"
)

// every Status* and Method* constant of net/http
const (
	StatusAccepted                      = http.StatusAccepted
	StatusAlreadyReported               = http.StatusAlreadyReported
	StatusBadGateway                    = http.StatusBadGateway
	StatusBadRequest                    = http.StatusBadRequest
	StatusConflict                      = http.StatusConflict
	StatusContinue                      = http.StatusContinue
	StatusCreated                       = http.StatusCreated
	StatusEarlyHints                    = http.StatusEarlyHints
	StatusExpectationFailed             = http.StatusExpectationFailed
	StatusFailedDependency              = http.StatusFailedDependency
	StatusForbidden                     = http.StatusForbidden
	StatusFound                         = http.StatusFound
	StatusGatewayTimeout                = http.StatusGatewayTimeout
	StatusGone                          = http.StatusGone
	StatusHTTPVersionNotSupported       = http.StatusHTTPVersionNotSupported
	StatusIMUsed                        = http.StatusIMUsed
	StatusInsufficientStorage           = http.StatusInsufficientStorage
	StatusInternalServerError           = http.StatusInternalServerError
	StatusLengthRequired                = http.StatusLengthRequired
	StatusLocked                        = http.StatusLocked
	StatusLoopDetected                  = http.StatusLoopDetected
	StatusMethodNotAllowed              = http.StatusMethodNotAllowed
	StatusMisdirectedRequest            = http.StatusMisdirectedRequest
	StatusMovedPermanently              = http.StatusMovedPermanently
	StatusMultiStatus                   = http.StatusMultiStatus
	StatusMultipleChoices               = http.StatusMultipleChoices
	StatusNetworkAuthenticationRequired = http.StatusNetworkAuthenticationRequired
	StatusNoContent                     = http.StatusNoContent
	StatusNonAuthoritativeInfo          = http.StatusNonAuthoritativeInfo
	StatusNotAcceptable                 = http.StatusNotAcceptable
	StatusNotExtended                   = http.StatusNotExtended
	StatusNotFound                      = http.StatusNotFound
	StatusNotImplemented                = http.StatusNotImplemented
	StatusNotModified                   = http.StatusNotModified
	StatusOK                            = http.StatusOK
	StatusPartialContent                = http.StatusPartialContent
	StatusPaymentRequired               = http.StatusPaymentRequired
	StatusPermanentRedirect             = http.StatusPermanentRedirect
	StatusPreconditionFailed            = http.StatusPreconditionFailed
	StatusPreconditionRequired          = http.StatusPreconditionRequired
	StatusProcessing                    = http.StatusProcessing
	StatusProxyAuthRequired             = http.StatusProxyAuthRequired
	StatusRequestEntityTooLarge         = http.StatusRequestEntityTooLarge
	StatusRequestHeaderFieldsTooLarge   = http.StatusRequestHeaderFieldsTooLarge
	StatusRequestTimeout                = http.StatusRequestTimeout
	StatusRequestURITooLong             = http.StatusRequestURITooLong
	StatusRequestedRangeNotSatisfiable  = http.StatusRequestedRangeNotSatisfiable
	StatusResetContent                  = http.StatusResetContent
	StatusSeeOther                      = http.StatusSeeOther
	StatusServiceUnavailable            = http.StatusServiceUnavailable
	StatusSwitchingProtocols            = http.StatusSwitchingProtocols
	StatusTeapot                        = http.StatusTeapot
	StatusTemporaryRedirect             = http.StatusTemporaryRedirect
	StatusTooEarly                      = http.StatusTooEarly
	StatusTooManyRequests               = http.StatusTooManyRequests
	StatusUnauthorized                  = http.StatusUnauthorized
	StatusUnavailableForLegalReasons    = http.StatusUnavailableForLegalReasons
	StatusUnprocessableEntity           = http.StatusUnprocessableEntity
	StatusUnsupportedMediaType          = http.StatusUnsupportedMediaType
	StatusUpgradeRequired               = http.StatusUpgradeRequired
	StatusUseProxy                      = http.StatusUseProxy
	StatusVariantAlsoNegotiates         = http.StatusVariantAlsoNegotiates

	MethodGet     = http.MethodGet
	MethodHead    = http.MethodHead
	MethodPost    = http.MethodPost
	MethodPut     = http.MethodPut
	MethodPatch   = http.MethodPatch
	MethodDelete  = http.MethodDelete
	MethodConnect = http.MethodConnect
	MethodOptions = http.MethodOptions
	MethodTrace   = http.MethodTrace

	DefaultMaxHeaderBytes = http.DefaultMaxHeaderBytes
	TimeFormat            = http.TimeFormat
)

type (
	Response     = http.Response
	Request      = http.Request
	Header       = http.Header
	RoundTripper = http.RoundTripper
	Transport    = http.Transport
	Cookie       = http.Cookie
)

var (
	ErrUseLastResponse = http.ErrUseLastResponse
	NoBody             = http.NoBody
)

func StatusText(code int) string { return http.StatusText(code) }

// Logged is one entry of the server's log.
type Logged struct {
	URL         string
	ContentType string
	Body        []byte
	Status      int // 0 = no answer
}

// Server decides the outcome of a request: a status code, or 0 for "no
// answer" (the client sees a transport error).  BodyCut + status: the status
// line and the headers arrive, reading the body fails (connection cut).
var Server func(url string, body []byte) int

var Log []Logged

const BodyCut = 1000

// Slow + status: the server processes the request (it is in its log with that status) and its
// answer arrives after SlowDelay of simulated time: a client with a shorter Timeout gives up and
// sees an error, a client without one (http.Post) gets the answer.  No real waiting.
const Slow = 2000

var SlowDelay = 30 * time.Second

type cutBody struct{}

func (cutBody) Read([]byte) (int, error) { return 0, io.ErrUnexpectedEOF }
func (cutBody) Close() error             { return nil }

func Reset(server func(url string, body []byte) int) {
	Server = server
	Log = nil
}

func send(method, u, contentType string, data []byte, req *Request) (*Response, error) {
	return sendT(method, u, contentType, data, req, 0)
}

func sendT(method, u, contentType string, data []byte, req *Request, timeout time.Duration) (*Response, error) {
	label := "Post " + u
	if method != "POST" {
		label = method + " " + u
	}
	vsched.Yield(label, 0)
	status := 0
	if Server != nil {
		status = Server(u, data)
	}
	slow := status >= Slow
	if slow {
		status -= Slow
	}
	cut := status >= BodyCut
	if cut {
		status -= BodyCut
	}
	Log = append(Log, Logged{u, contentType, data, status})
	if status == 0 {
		return nil, errors.New("vhttp: no answer")
	}
	if slow && timeout > 0 && timeout < SlowDelay {
		return nil, errors.New("vhttp: context deadline exceeded (Client.Timeout exceeded while awaiting headers)")
	}
	var body io.ReadCloser = io.NopCloser(strings.NewReader("ok\n"))
	if cut {
		body = cutBody{}
	}
	return &Response{
		Status:     fmt.Sprintf("%d %s", status, http.StatusText(status)),
		StatusCode: status,
		Proto:      "HTTP/1.1",
		ProtoMajor: 1,
		ProtoMinor: 1,
		Header:     Header{},
		Body:       body,
		Request:    req,
	}, nil
}

func Post(u, contentType string, body io.Reader) (*Response, error) {
	var data []byte
	if body != nil {
		var err error
		if data, err = io.ReadAll(body); err != nil {
			return nil, err
		}
	}
	return send("POST", u, contentType, data, nil)
}

func PostForm(u string, form url.Values) (*Response, error) {
	return Post(u, "application/x-www-form-urlencoded", strings.NewReader(form.Encode()))
}

func Get(u string) (*Response, error)  { return send("GET", u, "", nil, nil) }
func Head(u string) (*Response, error) { return send("HEAD", u, "", nil, nil) }

func NewRequest(method, u string, body io.Reader) (*Request, error) {
	return http.NewRequest(method, u, body)
}

func NewRequestWithContext(ctx context.Context, method, u string, body io.Reader) (*Request, error) {
	return http.NewRequestWithContext(ctx, method, u, body)
}

// Client has the fields of http.Client that a caller may set; none of them
// changes what the scripted server does.
type Client struct {
	Transport     RoundTripper
	CheckRedirect func(req *Request, via []*Request) error
	Jar           http.CookieJar
	Timeout       time.Duration
}

var DefaultClient = &Client{}

func (c *Client) Do(req *Request) (*Response, error) {
	var data []byte
	if req.Body != nil {
		var err error
		data, err = io.ReadAll(req.Body)
		req.Body.Close()
		if err != nil {
			return nil, err
		}
	}
	m := req.Method
	if m == "" {
		m = "GET"
	}
	to := c.Timeout
	if dl, ok := req.Context().Deadline(); ok {
		if d := time.Until(dl); to == 0 || d < to {
			to = d
		}
	}
	return sendT(m, req.URL.String(), req.Header.Get("Content-Type"), data, req, to)
}

func (c *Client) Post(u, contentType string, body io.Reader) (*Response, error) {
	var data []byte
	if body != nil {
		var err error
		if data, err = io.ReadAll(body); err != nil {
			return nil, err
		}
	}
	return sendT("POST", u, contentType, data, nil, c.Timeout)
}
func (c *Client) PostForm(u string, form url.Values) (*Response, error) { return PostForm(u, form) }
func (c *Client) Get(u string) (*Response, error)                       { return Get(u) }
func (c *Client) Head(u string) (*Response, error)                      { return Head(u) }
func (c *Client) CloseIdleConnections()                                 {}
