// Package vhttp mirrors the part of net/http that internal/upload uses
// (http.Post and the response's status) on top of the deterministic
// scheduler: the request is a yield point, then the harness's scripted
// server decides the outcome (a status code, or no answer = transport
// error) and the request is recorded in the server's log.  No network.
package vhttp

import (
	"errors"
	"fmt"
	"io"
	"strings"

	"golang.org/x/telemetry/internal/verifh/shim/vsched"
)

const (
	StatusOK                  = 200
	StatusBadRequest          = 400
	StatusInternalServerError = 500
)

type Response struct {
	Status     string
	StatusCode int
	Body       io.ReadCloser
}

// Request is one entry of the server's log.
type Request struct {
	URL         string
	ContentType string
	Body        []byte
	Status      int // 0 = no answer
}

// Server decides the outcome of a request: a status code, or 0 for "no
// answer" (the client sees a transport error).
var Server func(url string, body []byte) int

var Log []Request

func Reset(server func(url string, body []byte) int) {
	Server = server
	Log = nil
}

func Post(url, contentType string, body io.Reader) (*Response, error) {
	data, err := io.ReadAll(body)
	if err != nil {
		return nil, err
	}
	vsched.Yield("Post "+url, 0)
	status := 0
	if Server != nil {
		status = Server(url, data)
	}
	Log = append(Log, Request{url, contentType, data, status})
	if status == 0 {
		return nil, errors.New("vhttp: no answer")
	}
	return &Response{
		Status:     fmt.Sprintf("%d status", status),
		StatusCode: status,
		Body:       io.NopCloser(strings.NewReader("")),
	}, nil
}
