// Package vsyncu mirrors the part of sync used by internal/upload (a Mutex)
// for the fault suite of C05: in the plan mode of vos the run is one
// goroutine, so an attempt to lock a mutex that is held can never succeed -
// it is recorded as a hang (vos.Hung) and the run is aborted with the panic
// value vos.HangError (the flag survives a recover in the code under test).
// In the lock-step suites of C07/C08 (threads of the deterministic scheduler)
// taking a free mutex is no yield point (it has no effect another process
// can observe); a thread that finds the mutex held by a parked thread parks
// as Blocked and re-tests when stepped again, so the harness can run the
// holder first.  Outside both modes it is the real sync.Mutex.
package vsyncu

import (
	"sync"
	"unsafe"

	"golang.org/x/telemetry/internal/verifh/shim/vos"
	"golang.org/x/telemetry/internal/verifh/shim/vsched"
)

type Mutex struct {
	held  bool
	sched bool // taken by a thread of the deterministic scheduler
	real  sync.Mutex
}

func (m *Mutex) Lock() {
	if vos.PlanMode {
		if m.held {
			vos.Hung = true
			panic(vos.HangError{Calls: vos.Calls})
		}
		m.held = true
		return
	}
	if vsched.Managed() {
		for m.held {
			vsched.YieldBlocked("lock", uintptr(unsafe.Pointer(m)))
		}
		m.held, m.sched = true, true
		return
	}
	m.real.Lock()
}

func (m *Mutex) Unlock() {
	if vos.PlanMode {
		if !m.held {
			panic("vsyncu: unlock of unlocked mutex")
		}
		m.held = false
		return
	}
	if m.sched {
		m.held, m.sched = false, false
		return
	}
	m.real.Unlock()
}

type Once = sync.Once
type WaitGroup = sync.WaitGroup
type RWMutex = sync.RWMutex
