// Package vsyncu mirrors the part of sync used by internal/upload (a Mutex)
// for the fault suite of C05: in the plan mode of vos the run is one
// goroutine, so an attempt to lock a mutex that is held can never succeed -
// it is recorded as a hang (vos.Hung) and the run is aborted with the panic
// value vos.HangError (the flag survives a recover in the code under test).
// Outside plan mode (the lock-step suites of C07/C08) it is the real
// sync.Mutex.
package vsyncu

import (
	"sync"

	"golang.org/x/telemetry/internal/verifh/shim/vos"
)

type Mutex struct {
	held bool
	real sync.Mutex
}

func (m *Mutex) Lock() {
	if vos.PlanMode {
		if m.held {
			vos.Hung = true
			panic(vos.HangError{Calls: vos.Calls})
		}
		m.held = true
		return
	}
	m.real.Lock()
}

func (m *Mutex) Unlock() {
	if vos.PlanMode {
		if !m.held {
			panic("vsyncu: unlock of unlocked mutex")
		}
		m.held = false
		return
	}
	m.real.Unlock()
}

type Once = sync.Once
type WaitGroup = sync.WaitGroup
type RWMutex = sync.RWMutex
