// Package vsched is a deterministic scheduler for goroutines of the code
// under test.  The shim packages (vatomic, vsync, vos, vhttp) call Yield
// before every shared-memory / file-system / network operation; a managed
// thread then parks until the harness gives it its next step.  One step runs
// a thread from the operation it is parked before up to (not including) its
// next operation, so a schedule (list of thread ids) determines the
// execution completely.
//
// Exactly one managed goroutine runs at a time, which is how Yield knows
// the calling thread without goroutine-local storage.  Goroutines that are
// not managed (the harness itself while no step is in progress) pass
// through Yield unchanged.
package vsched

import (
	"fmt"
	"runtime/debug"
)

type Info struct {
	Done    bool   // the thread's function returned (or panicked)
	Panic   string // non-empty if it panicked
	Label   string // operation the thread is parked before
	Addr    uintptr
	Blocked bool // parked before a lock it could not take on its last attempt
	Killed  bool
}

type thread struct {
	id      int
	resume  chan struct{}
	parked  chan Info
	last    Info
	done    bool
	killed  bool
	steps   int
	holding int // number of shim mutexes held (for coarse mode)
}

type Sched struct {
	threads []*thread
	cur     *thread
	// Coarse: operations performed while the thread holds a shim mutex are
	// not yield points (the critical section is one step).
	Coarse bool
	// Events collects out-of-band observations (e.g. USE-AFTER-UNMAP).
	Events []string
}

var active *Sched

func New(coarse bool) *Sched {
	s := &Sched{Coarse: coarse}
	active = s
	return s
}

func Stop() { active = nil }

func Active() *Sched { return active }

// Event records an observation made by a shim during the current step.
func Event(e string) {
	if s := active; s != nil {
		s.Events = append(s.Events, e)
	}
}

// Go registers fn as a new managed thread and runs it up to its first
// yield point (that prologue touches no shared state by construction of the
// shims).  Returns the thread id.
func (s *Sched) Go(fn func()) int {
	t := &thread{id: len(s.threads), resume: make(chan struct{}), parked: make(chan Info)}
	s.threads = append(s.threads, t)
	go func() {
		<-t.resume
		defer func() {
			if r := recover(); r != nil {
				t.parked <- Info{Done: true, Panic: fmt.Sprintf("%v\n%s", r, debug.Stack())}
				return
			}
			t.parked <- Info{Done: true}
		}()
		fn()
	}()
	s.run(t)
	return t.id
}

func (s *Sched) run(t *thread) Info {
	s.cur = t
	t.resume <- struct{}{}
	info := <-t.parked
	s.cur = nil
	t.last = info
	if info.Done {
		t.done = true
	}
	return info
}

// Step lets thread tid perform the operation it is parked before and run
// to its next yield point.  Stepping a finished or killed thread is a no-op.
func (s *Sched) Step(tid int) Info {
	t := s.threads[tid]
	if t.done || t.killed {
		i := t.last
		i.Killed = t.killed
		return i
	}
	t.steps++
	return s.run(t)
}

// Kill: the thread is never scheduled again (models a process killed at
// this point: nothing after its current yield point runs, including defers).
func (s *Sched) Kill(tid int) { s.threads[tid].killed = true }

func (s *Sched) Done(tid int) bool   { return s.threads[tid].done }
func (s *Sched) Killed(tid int) bool { return s.threads[tid].killed }
func (s *Sched) Last(tid int) Info   { return s.threads[tid].last }
func (s *Sched) Steps(tid int) int   { return s.threads[tid].steps }
func (s *Sched) N() int              { return len(s.threads) }
func (s *Sched) AllDone() bool {
	for _, t := range s.threads {
		if !t.done && !t.killed {
			return false
		}
	}
	return true
}

// Runnable lists threads that are neither finished nor killed.
func (s *Sched) Runnable() []int {
	var r []int
	for _, t := range s.threads {
		if !t.done && !t.killed {
			r = append(r, t.id)
		}
	}
	return r
}

// Yield parks the calling managed thread before an operation.
func Yield(label string, addr uintptr) {
	s := active
	if s == nil {
		return
	}
	t := s.cur
	if t == nil {
		return
	}
	if s.Coarse && t.holding > 0 {
		return
	}
	t.parked <- Info{Label: label, Addr: addr}
	<-t.resume
}

// YieldBlocked is Yield for a lock acquisition that failed on the previous
// attempt (the harness sees Blocked and can avoid spinning on it).
func YieldBlocked(label string, addr uintptr) {
	s := active
	if s == nil {
		return
	}
	t := s.cur
	if t == nil {
		return
	}
	t.parked <- Info{Label: label, Addr: addr, Blocked: true}
	<-t.resume
}

// Managed reports whether the caller runs as a managed thread.
func Managed() bool { return active != nil && active.cur != nil }

func Hold(delta int) {
	if s := active; s != nil && s.cur != nil {
		s.cur.holding += delta
	}
}
