// Package vsync mirrors the part of sync used by the code under test on top
// of the deterministic scheduler: a lock acquisition is a yield point; a
// thread that finds the lock held stays parked before the acquisition and
// retries when stepped again.  Unmanaged goroutines (the harness itself)
// fall back to try-lock spinning, which cannot block while no managed
// thread is mid-step.
package vsync

import (
	"sync"
	"unsafe"

	"golang.org/x/telemetry/internal/verifh/shim/vsched"
)

type Mutex struct {
	held bool
}

func (m *Mutex) Lock() {
	vsched.Yield("lock", uintptr(unsafe.Pointer(m)))
	for m.held {
		if !vsched.Managed() {
			panic("vsync: unmanaged goroutine would block on a mutex held by a parked thread")
		}
		vsched.YieldBlocked("lock", uintptr(unsafe.Pointer(m)))
	}
	m.held = true
	vsched.Hold(1)
}

func (m *Mutex) TryLock() bool {
	vsched.Yield("trylock", uintptr(unsafe.Pointer(m)))
	if m.held {
		return false
	}
	m.held = true
	vsched.Hold(1)
	return true
}

func (m *Mutex) Unlock() {
	if !m.held {
		panic("vsync: unlock of unlocked mutex")
	}
	m.held = false
	vsched.Hold(-1)
}

type Locker = sync.Locker

type Once struct {
	m    Mutex
	done bool
}

func (o *Once) Do(f func()) {
	if o.done {
		return
	}
	o.m.Lock()
	defer o.m.Unlock()
	if !o.done {
		defer func() { o.done = true }()
		f()
	}
}

// WaitGroup and RWMutex are passed through (no yield points) for code that
// only uses them around whole operations.
type WaitGroup = sync.WaitGroup
type RWMutex = sync.RWMutex
